#!/usr/bin/env python3
"""Entry point of the verification machinery.

  check.py --setup                      build every variant once (MANIFEST.setup_cmd)
  check.py Cxx --tier quick|thorough    run the check of one property
  check.py Cxx --replay FILE [-r N]     re-run a recorded witness

Exit status: 0 held on everything explored (KNOWN-FINDING lines may be printed),
1 violation (prints `VIOLATION property=<id> replay=<path>`), 2 inconclusive /
harness failure.
"""
import sys, os, json, time, argparse, hashlib, re, fnmatch, traceback, collections

sys.path.insert(0, os.path.dirname(os.path.abspath(__file__)))
from vlib import build as B
from vlib import run as R
from vlib import props as P

VERIF = os.path.dirname(os.path.abspath(__file__))
EVID = os.path.join(VERIF, 'evidence')
REPLAYS = os.path.join(VERIF, 'replays')

def load_known():
    path = os.path.join(VERIF, 'known_findings.json')
    if not os.path.exists(path):
        return []
    return json.load(open(path)).get('findings', [])

def match_known(known, prop, key):
    for k in known:
        if k.get('status') != 'known':
            continue          # "fixed" entries suppress nothing
        if k['property'] == prop and fnmatch.fnmatchcase(key, k['key']):
            return k
    return None

def sanitize(s):
    return re.sub(r'[^A-Za-z0-9_.-]+', '_', s)[:100]

def case_hash(c):
    d = {k: v for k, v in c.items() if k not in ('id', 'dumpdir')}
    return hashlib.sha1(json.dumps(d, sort_keys=True).encode()).hexdigest()

def write_replay(prop, key, rec, extra=None):
    d = os.path.join(REPLAYS, prop)
    os.makedirs(d, exist_ok=True)
    path = os.path.join(d, '%s_%s.json' % (sanitize(key), rec['case'].get('id', 'x')))
    obj = {'property': prop, 'key': key, 'case': rec['case'], 'meta': rec.get('meta'), 'result': rec.get('result'),
           'rc': rec.get('rc'), 'signal': rec.get('signal'), 'timeout': rec.get('timeout'),
           'stderr_tail': (rec.get('stderr') or '')[-6000:], 'san': rec.get('san'), 'tsan': rec.get('tsan_reports')}
    if extra:
        obj.update(extra)
    # keep the event log next to the witness if the probe wrote one
    ev = (rec.get('result') or {}).get('eventlog')
    if ev and os.path.exists(ev):
        dst = path[:-5] + '.events.log'
        try:
            import shutil; shutil.copyfile(ev, dst); obj['eventlog'] = dst
        except Exception:
            pass
    json.dump(obj, open(path, 'w'), indent=1, default=str)
    return path

def run_check(pid, tier, seed, replay=None, repeat=1):
    t0 = time.time()
    prop = P.PROPS[pid]
    ctx = P.Ctx(pid, tier, seed)
    known = load_known()
    runner = R.Runner(timeout_case=prop.get('timeout_case', 60.0))
    dumpdir = os.path.join(runner.tmp, 'dump'); os.makedirs(dumpdir, exist_ok=True)
    try:
        if not replay:
            import shutil
            shutil.rmtree(os.path.join(REPLAYS, pid), ignore_errors=True)
        if replay:
            w = json.load(open(replay))
            items = []
            for i in range(repeat):
                c = dict(w['case']); c['id'] = i
                m = dict(w.get('meta') or {})
                items.append((m, c))
        else:
            ctx.workdir = runner.tmp
            items = prop['gen'](ctx)          # list of (meta, case)
            for i, (m, c) in enumerate(items):
                c['id'] = i
        for m, c in items:
            if m.get('dump', True):
                c['dumpdir'] = dumpdir
        variants = sorted(set(m['variant'] for m, c in items))
        bins = {}
        for v in variants:
            bins[v] = B.build(v)
        # group into jobs
        groups = collections.OrderedDict()
        for m, c in items:
            groups.setdefault((m['variant'], m['prec'], bool(m.get('per_process')), json.dumps(m.get('env', {}), sort_keys=True),
                               tuple(m.get('wrapper', []) or [])), []).append((m, c))
        jobs = []
        meta_of = {}
        for (v, p, pp, envs, wrap), lst in groups.items():
            exe = bins[v][p]
            env = json.loads(envs)
            cs = [c for m, c in lst]
            for m, c in lst:
                meta_of[c['id']] = m
            tsc = max([m.get('timeout_scale', 1.0) for m, c in lst])
            if pp:
                for c in cs:
                    jobs.append((exe, [c], True, env, list(wrap) or None, tsc))
            else:
                bs = prop.get('batch', 20)
                for ch in R.chunk(cs, bs):
                    jobs.append((exe, ch, False, env, list(wrap) or None, tsc))
        # a handful of watchdog time-outs is enough to stop a small run; a large one under load may see a few slow cases
        runner.max_timeouts = max(runner.max_timeouts, len(items) // 200)
        recs = runner.run_all(jobs)
        # time-outs: inconclusive once, re-run; a second time-out is a hang witness
        tmo = [cid for cid, r in recs.items() if r.get('timeout')]
        inconclusive = []
        runner.n_timeouts = 0; runner.max_timeouts = 10 ** 9
        for cid in tmo[:3]:           # three confirmations are enough; the others stay single time-outs
            m = meta_of[cid]
            exe = bins[m['variant']][m['prec']]
            r2 = runner.run_batch(exe, [recs[cid]['case']], True, m.get('env'), m.get('wrapper'), m.get('timeout_scale', 1.0))
            r2 = r2[cid]
            if r2.get('timeout'):
                r2['hang'] = True
            recs[cid] = r2
        for cid, r in recs.items():
            r['meta'] = meta_of[cid]
            if r.get('stderr') and meta_of[cid]['variant'] in ('tsan', 'clang_tsan'):
                r['tsan_reports'] = R.parse_tsan(r['stderr'])

        # ---- judge ----
        violations = []     # (key, rec, msg)
        notes = collections.Counter()
        for cid in sorted(recs):
            r = recs[cid]
            vs = P.judge_record(ctx, prop, r)
            for key, msg in vs:
                if P.relevant(prop, key):
                    violations.append((key, r, msg))
                else:
                    if key not in notes:
                        try:
                            write_replay(os.path.join(pid, 'notes'), key, r, {'message': msg})
                        except Exception:
                            pass
                    notes[key] += 1
        post = prop.get('post')
        if post:
            extra = []
            post(ctx, recs, extra)
            for key, r, msg in extra:
                if P.relevant(prop, key):
                    violations.append((key, r, msg))
        # dedupe by key
        bykey = collections.OrderedDict()
        for key, r, msg in violations:
            bykey.setdefault(key, []).append((r, msg))
        new = []
        kf = collections.OrderedDict()
        for key, lst in bykey.items():
            k = match_known(known, pid, key)
            if k:
                e = kf.setdefault(id(k), [k, [], 0]); e[1].append(key); e[2] += len(lst)
            else:
                path = write_replay(pid, key, lst[0][0], {'message': lst[0][1], 'occurrences': len(lst)})
                new.append((key, path, lst))
        for k, keys, cnt in kf.values():
            print('KNOWN-FINDING: property=%s %s [%d occurrences this run under %d key(s), e.g. %s]' % (pid, k['what'], cnt, len(keys), keys[0]))
        # ---- coverage / evidence ----
        cov = P.coverage(ctx, prop, recs)
        cov['known_finding_keys_seen'] = sorted(k for k in bykey if match_known(known, pid, k))
        cov['other_property_failures_seen'] = dict(notes)
        floors = P.floors(ctx, prop, cov, recs)
        ev = {'property_id': pid, 'tier': tier, 'seed': seed, 'level': prop.get('level', 'exploration'),
              'coverage': cov, 'assumptions': prop.get('assumptions', []), 'wall_s': round(time.time() - t0, 2),
              'violations': len(new)}
        if not replay:
            os.makedirs(EVID, exist_ok=True)
            json.dump(ev, open(os.path.join(EVID, pid + '.json'), 'w'), indent=1, default=str)
        for key, cnt in notes.items():
            print('note: %d failure(s) of another property observed while checking %s: %s' % (cnt, pid, key))
        print('%s %s seed=%d: %d cases, %d distinct non-trivial, %.1fs' % (pid, tier, seed, cov.get('evaluations', 0), cov.get('distinct_nontrivial', 0), time.time() - t0))
        if new:
            for key, path, lst in new:
                print('VIOLATION property=%s replay=%s' % (pid, path))
                print('  key=%s occurrences=%d: %s' % (key, len(lst), lst[0][1][:300]))
            return 1
        if floors:
            for f in floors:
                print('INCONCLUSIVE: %s' % f)
            return 2
        return 0
    finally:
        runner.close()

def main():
    ap = argparse.ArgumentParser()
    ap.add_argument('prop', nargs='?')
    ap.add_argument('--tier', default=os.environ.get('VERIF_TIER', 'quick'))
    ap.add_argument('--setup', action='store_true')
    ap.add_argument('--replay')
    ap.add_argument('-r', '--repeat', type=int, default=20)
    a = ap.parse_args()
    seed = int(os.environ.get('VERIF_SEED', '0') or 0)
    if a.setup:
        t0 = time.time()
        for v in ('plain', 'asan', 'tsan'):
            B.build(v, quiet=False)
        print('setup done in %.1fs' % (time.time() - t0))
        return 0
    if a.prop not in P.PROPS:
        print('unknown property', a.prop); return 2
    try:
        return run_check(a.prop, a.tier, seed, a.replay, a.repeat)
    except Exception:
        traceback.print_exc()
        print('INCONCLUSIVE: harness failure')
        return 2

if __name__ == '__main__':
    sys.exit(main())
