/* args: illegal-argument handling (C15).  One call with one or two planted violations;
 * expected info = -(lowest documented position), xerbla_ called once with it, no side effects. */
#include "hx.h"
#include <malloc.h>

size_t heap_bytes(void);

typedef struct {
    int_t n, nrhs;
    csc_t G;
    elem_t *b, *x;
    real_t *R, *C, *ferr, *berr;
    int_t *perm_c, *perm_r;
    SuperMatrix A, B, X, L, U;
    int have_lu;
    superlumt_options_t opt;
    Gstat_t Gstat;
} fix_t;

static uint64_t fix_hash(fix_t *F)
{
    uint64_t h = csc_hash(&F->G);
    int_t n = F->n;
    h = fnv(F->b, (size_t)n * F->nrhs * sizeof(elem_t), h);
    h = fnv(F->x, (size_t)n * F->nrhs * sizeof(elem_t), h);
    h = fnv(F->R, n * sizeof(real_t), h); h = fnv(F->C, n * sizeof(real_t), h);
    h = fnv(F->ferr, F->nrhs * sizeof(real_t), h); h = fnv(F->berr, F->nrhs * sizeof(real_t), h);
    h = fnv(F->perm_c, n * sizeof(int_t), h); h = fnv(F->perm_r, n * sizeof(int_t), h);
    if (F->have_lu) {
        const SCPformat *Ls = F->L.Store; const NCPformat *Us = F->U.Store;
        long long lm = 0, um = 0, rm = 0;
        for (int_t j = 0; j < n; ++j) { if (Ls->nzval_colend[j] > lm) lm = Ls->nzval_colend[j]; if (Us->colend[j] > um) um = Us->colend[j]; if (Ls->rowind_colend[j] > rm) rm = Ls->rowind_colend[j]; }
        h = fnv(Ls->nzval, (size_t)lm * sizeof(elem_t), h); h = fnv(Us->nzval, (size_t)um * sizeof(elem_t), h);
        h = fnv(Us->rowind, (size_t)um * sizeof(int_t), h);
        h = fnv(Ls->col_to_sup, n * sizeof(int_t), h);
    }
    return h;
}

static void fix_init(fix_t *F, const case_t *c, rng_t *rng, int want_lu)
{
    memset(F, 0, sizeof *F);
    case_t cc; char line[256];
    snprintf(line, sizeof line, "fam=band n=%ld bl=1 bu=1 vals=generic", (long)cint(c, "n", 5));
    case_parse(&cc, line);
    gen_matrix(&cc, rng, &F->G);
    case_free(&cc);
    int_t n = F->n = F->G.n; F->nrhs = 2;
    F->b = xmalloc((size_t)n * 2 * sizeof(elem_t) + 16); F->x = xmalloc((size_t)n * 2 * sizeof(elem_t) + 16);
    gen_rhs(rng, n, 2, n, F->b, "generic"); gen_rhs(rng, n, 2, n, F->x, "generic");
    F->R = xmalloc((n + 1) * sizeof(real_t)); F->C = xmalloc((n + 1) * sizeof(real_t));
    F->ferr = xmalloc(3 * sizeof(real_t)); F->berr = xmalloc(3 * sizeof(real_t));
    for (int_t i = 0; i < n; ++i) { F->R[i] = (real_t)1.5; F->C[i] = (real_t)0.75; }
    F->ferr[0] = F->ferr[1] = F->berr[0] = F->berr[1] = (real_t)-1;
    F->perm_c = xmalloc((n + 1) * sizeof(int_t)); F->perm_r = xmalloc((n + 1) * sizeof(int_t));
    for (int_t i = 0; i < n; ++i) { F->perm_c[i] = i; F->perm_r[i] = i; }
    CREATE_COMPCOL(&F->A, n, n, F->G.nnz, F->G.val, F->G.rowind, F->G.colptr, SLU_NC, SLU_DT, SLU_GE);
    CREATE_DENSE(&F->B, n, 2, F->b, n, SLU_DN, SLU_DT, SLU_GE);
    CREATE_DENSE(&F->X, n, 2, F->x, n, SLU_DN, SLU_DT, SLU_GE);
    memset(&F->opt, 0, sizeof F->opt);
    F->opt.nprocs = 1; F->opt.fact = DOFACT; F->opt.trans = NOTRANS; F->opt.refact = NO; F->opt.panel_size = 2; F->opt.relax = 1;
    F->opt.diag_pivot_thresh = 1.0; F->opt.usepr = NO; F->opt.drop_tol = 0; F->opt.SymmetricMode = NO; F->opt.PrintStat = NO;
    F->opt.perm_c = F->perm_c; F->opt.perm_r = F->perm_r; F->opt.work = NULL; F->opt.lwork = 0;
    F->opt.etree = intMalloc(n); F->opt.colcnt_h = intMalloc(n); F->opt.part_super_h = intMalloc(n);
    StatAlloc(n, 1, 2, 1, &F->Gstat); StatInit(n, 1, &F->Gstat);
    if (want_lu) {
        /* a genuine factorization to hand to the routines that take L and U */
        elem_t *bt = xmalloc((size_t)n * sizeof(elem_t) + 16); memcpy(bt, F->b, n * sizeof(elem_t));
        SuperMatrix Bt; CREATE_DENSE(&Bt, n, 1, bt, n, SLU_DN, SLU_DT, SLU_GE);
        int_t info = 0;
        GSSV(1, &F->A, F->perm_c, F->perm_r, &F->L, &F->U, &Bt, &info);
        F->have_lu = (info == 0);
        Destroy_SuperMatrix_Store(&Bt); free(bt);
    }
}
static void fix_free(fix_t *F)
{
    if (F->have_lu) { Destroy_SuperNode_SCP(&F->L); Destroy_CompCol_NCP(&F->U); }
    SUPERLU_FREE(F->opt.etree); SUPERLU_FREE(F->opt.colcnt_h); SUPERLU_FREE(F->opt.part_super_h);
    StatFree(&F->Gstat);
    Destroy_SuperMatrix_Store(&F->A); Destroy_SuperMatrix_Store(&F->B); Destroy_SuperMatrix_Store(&F->X);
    free(F->b); free(F->x); free(F->R); free(F->C); free(F->ferr); free(F->berr); free(F->perm_c); free(F->perm_r);
    csc_free(&F->G);
}

/* violations: returns the documented position, applies the damage.  id space is per routine. */
typedef struct { const char *name; int pos; } vdesc_t;

static int apply(const char *rt, int v, fix_t *F, char *s1, char *s2, char *s3, int_t *incx, int_t *incy, equed_t *equed, trans_t *tr, int *nprocs, const char **label)
{
    DNformat *Bs = F->B.Store, *Xs = F->X.Store;
#define V(k, lab, p, stmt) if (v == (k)) { *label = lab; stmt; return (p); }
    if (!strcmp(rt, "gssv")) {
        V(0, "nprocs=0", 1, *nprocs = 0) V(1, "nprocs<0", 1, *nprocs = -3)
        V(2, "A-nonsquare", 2, F->A.nrow = F->n + 1) V(3, "A-negative", 2, (F->A.nrow = -1, F->A.ncol = -1))
        V(4, "A-Stype", 2, F->A.Stype = SLU_DN) V(5, "A-Dtype", 2, F->A.Dtype = (SLU_DT == SLU_D ? SLU_S : SLU_D)) V(6, "A-Mtype", 2, F->A.Mtype = SLU_TRL)
        V(7, "B-ncol<0", 7, F->B.ncol = -1) V(8, "B-lda", 7, Bs->lda = F->n - 1)
        /* a B that is consistently too short (what ?Create_Dense_Matrix gives with a wrong m), and an empty one */
        V(9, "B-short", 7, (F->B.nrow = F->n - 1, Bs->lda = F->n - 1)) V(10, "B-empty", 7, (F->B.nrow = 0, Bs->lda = 1))
        return 0;
    }
    if (!strcmp(rt, "gssvx")) {
        V(0, "nprocs=0", 1, *nprocs = 0)
        V(1, "fact", 2, F->opt.fact = (fact_t)7) V(2, "trans", 2, F->opt.trans = (trans_t)7) V(3, "refact", 2, F->opt.refact = (yes_no_t)5)
        V(4, "usepr", 2, F->opt.usepr = (yes_no_t)5) V(5, "lwork<-1", 2, F->opt.lwork = -2)
        V(6, "A-nonsquare", 3, F->A.nrow = F->n + 1) V(7, "A-negative", 3, (F->A.nrow = -1, F->A.ncol = -1)) V(8, "A-Stype", 3, F->A.Stype = SLU_DN)
        V(9, "A-Dtype", 3, F->A.Dtype = (SLU_DT == SLU_D ? SLU_S : SLU_D)) V(10, "A-Mtype", 3, F->A.Mtype = SLU_TRL)
        V(11, "equed", 6, (F->opt.fact = FACTORED, *equed = (equed_t)9))
        V(12, "R<=0", 7, (F->opt.fact = FACTORED, *equed = ROW, F->R[F->n / 2] = (real_t)0))
        V(13, "C<=0", 8, (F->opt.fact = FACTORED, *equed = COL, F->C[F->n / 2] = (real_t)-1))
        V(14, "B-ncol<0", 11, F->B.ncol = -1) V(15, "B-lda", 11, Bs->lda = F->n - 1) V(16, "B-Stype", 11, F->B.Stype = SLU_NC) V(17, "B-Dtype", 11, F->B.Dtype = (SLU_DT == SLU_D ? SLU_S : SLU_D))
        V(18, "B-Mtype", 11, F->B.Mtype = SLU_TRL)
        V(19, "X-lda", 12, Xs->lda = F->n - 1) V(20, "X-ncol", 12, F->X.ncol = 1) V(21, "X-Stype", 12, F->X.Stype = SLU_NC) V(22, "X-Dtype", 12, F->X.Dtype = (SLU_DT == SLU_D ? SLU_S : SLU_D))
        V(23, "X-ncol<0", 12, F->X.ncol = -1)
        /* both scale vectors in use (equed = BOTH): one or both illegal; the first offender is R (argument 7) */
        V(24, "BOTH:R<=0,C<=0", 7, (F->opt.fact = FACTORED, *equed = BOTH, F->R[F->n / 2] = (real_t)0, F->C[F->n / 3] = (real_t)-1))
        V(25, "BOTH:C<=0", 8, (F->opt.fact = FACTORED, *equed = BOTH, F->C[0] = (real_t)0))
        V(26, "BOTH:R<=0", 7, (F->opt.fact = FACTORED, *equed = BOTH, F->R[F->n - 1] = (real_t)-2))
        V(27, "B-short", 11, (F->B.nrow = F->n - 1, Bs->lda = F->n - 1)) V(28, "X-short", 12, (F->X.nrow = F->n - 1, Xs->lda = F->n - 1))
        return 0;
    }
    if (!strcmp(rt, "gstrs")) {
        V(0, "trans", 1, *tr = (trans_t)7) V(1, "L-nonsquare", 2, F->L.nrow = F->n + 1) V(2, "L-negative", 2, (F->L.nrow = -1, F->L.ncol = -1))
        V(3, "U-nonsquare", 3, F->U.nrow = F->n + 1) V(4, "B-lda", 6, Bs->lda = F->n - 1) V(5, "B-ncol<0", 6, F->B.ncol = -1)
        V(6, "B-short", 6, (F->B.nrow = F->n - 1, Bs->lda = F->n - 1))
        return 0;
    }
    if (!strcmp(rt, "gsrfs")) {
        V(0, "trans", 1, *tr = (trans_t)7) V(1, "A-nonsquare", 2, F->A.nrow = F->n + 1) V(2, "A-Stype", 2, F->A.Stype = SLU_NR) V(3, "A-Dtype", 2, F->A.Dtype = (SLU_DT == SLU_D ? SLU_S : SLU_D))
        V(4, "L-nonsquare", 3, F->L.nrow = F->n + 1) V(5, "L-Stype", 3, F->L.Stype = SLU_NC) V(6, "U-nonsquare", 4, F->U.nrow = F->n + 1) V(7, "U-Stype", 4, F->U.Stype = SLU_NC)
        V(8, "B-lda", 10, Bs->lda = F->n - 1) V(9, "B-Stype", 10, F->B.Stype = SLU_NC) V(10, "X-lda", 11, Xs->lda = F->n - 1) V(11, "X-Stype", 11, F->X.Stype = SLU_NC)
        V(12, "B-short", 10, (F->B.nrow = F->n - 1, Bs->lda = F->n - 1)) V(13, "X-short", 11, (F->X.nrow = F->n - 1, Xs->lda = F->n - 1))
        return 0;
    }
    if (!strcmp(rt, "gscon")) {
        V(0, "norm", 1, s1[0] = 'X') V(1, "L-nonsquare", 2, F->L.nrow = F->n + 1) V(2, "L-Stype", 2, F->L.Stype = SLU_NC) V(3, "U-nonsquare", 3, F->U.nrow = F->n + 1) V(4, "U-Stype", 3, F->U.Stype = SLU_NC)
        return 0;
    }
    if (!strcmp(rt, "gsequ")) {
        V(0, "A-negative", 1, F->A.nrow = -1) V(1, "A-Stype", 1, F->A.Stype = SLU_NR) V(2, "A-Dtype", 1, F->A.Dtype = (SLU_DT == SLU_D ? SLU_S : SLU_D)) V(3, "A-Mtype", 1, F->A.Mtype = SLU_TRL)
        return 0;
    }
    if (!strcmp(rt, "trsv")) {
        V(0, "uplo", 1, s1[0] = 'X') V(1, "trans", 2, s2[0] = 'X') V(2, "diag", 3, s3[0] = 'X') V(3, "L-nonsquare", 4, F->L.nrow = F->n + 1) V(4, "U-nonsquare", 5, F->U.nrow = F->n + 1)
        V(5, "L-negative", 4, (F->L.nrow = -1, F->L.ncol = -1))
        return 0;
    }
    if (!strcmp(rt, "gemv")) {
        V(0, "trans", 1, s1[0] = 'X') V(1, "A-negative", 3, F->A.nrow = -1) V(2, "incx=0", 5, *incx = 0) V(3, "incy=0", 8, *incy = 0)
        return 0;
    }
#undef V
    return 0;
}

int cmd_args(const case_t *c)
{
    rng_t rng = { (uint64_t)cint(c, "seed", 1) * 2654435761ULL + 55 };
    const char *rt = cstr(c, "rt", "gssv");
    int v1 = (int)cint(c, "v1", 0), v2 = (int)cint(c, "v2", -1);
    fix_t F;
    int need_lu = strcmp(rt, "gssv") && strcmp(rt, "gsequ") && strcmp(rt, "gemv");
    hx_ienv_defaults(); hx_ienv[1] = 2; hx_ienv[2] = 1;
    fix_init(&F, c, &rng, need_lu);
    jo_begin(c);
    jo_str("rt", rt);
    if (need_lu && !F.have_lu) { jo_str("error", "setup factorization failed"); jo_end(); fix_free(&F); return 2; }
    char s1[8] = "1", s2[8] = "N", s3[8] = "U";
    if (!strcmp(rt, "trsv")) { strcpy(s1, "L"); strcpy(s2, "N"); strcpy(s3, "U"); }
    if (!strcmp(rt, "gemv")) strcpy(s1, "N");
    int_t incx = 1, incy = 1; equed_t equed = NOEQUIL; trans_t tr = NOTRANS; int nprocs = 1;
    const char *l1 = "?", *l2 = "";
    /* snapshot headers so that the planted damage can be undone before the fixture is released */
    /* anr=1: the same arrays handed over as a ROW-wise matrix (legal; the drivers build a column-wise view of it) */
    if (cint(c, "anr", 0) && (!strcmp(rt, "gssv") || !strcmp(rt, "gssvx"))) F.A.Stype = SLU_NR;
    SuperMatrix A0 = F.A, B0 = F.B, X0 = F.X, L0 = F.L, U0 = F.U; DNformat Bs0 = *(DNformat *)F.B.Store, Xs0 = *(DNformat *)F.X.Store;
    real_t Rmid = F.R[F.n / 2], Cmid = F.C[F.n / 2];
    /* legal=k: the illegal call additionally carries LEGAL but unusual option values (set before the violation is planted, so a
       violation that is about the same field wins): 1 workspace query (lwork = -1), 2 transposed solve with 3 threads,
       3 a caller-supplied workspace.  Argument tests come before any work, so the documented answer does not change. */
    int legal = (int)cint(c, "legal", 0); void *legal_work = NULL;
    if (!strcmp(rt, "gssvx")) {
        if (legal == 1) F.opt.lwork = -1;
        else if (legal == 2) { F.opt.trans = TRANS; nprocs = 3; }
        else if (legal == 3) { F.opt.lwork = 1 << 20; legal_work = xmalloc((size_t)F.opt.lwork); F.opt.work = legal_work; }
    } else legal = 0;
    int p1 = apply(rt, v1, &F, s1, s2, s3, &incx, &incy, &equed, &tr, &nprocs, &l1);
    int p2 = (v2 >= 0) ? apply(rt, v2, &F, s1, s2, s3, &incx, &incy, &equed, &tr, &nprocs, &l2) : 0;
    if (p1 == 0 || (v2 >= 0 && p2 == 0)) { jo_str("error", "no such violation"); jo_end(); F.A = A0; F.B = B0; F.X = X0; F.L = L0; F.U = U0; fix_free(&F); return 0; }
    int want = (p2 && p2 < p1) ? p2 : p1;
    /* the illegal call is additionally degenerate in a LEGAL way (no right-hand sides): argument tests come first, so the
       answer must not change (a quick return placed ahead of the tests would swallow the violation) */
    int nrhs0 = cint(c, "nrhs0", 0) && F.B.ncol > 0 && F.X.ncol > 0 && !strstr(l1, "ncol") && !strstr(l2, "ncol");   /* not for violations that are about ncol themselves */
    if (nrhs0) { F.B.ncol = 0; F.X.ncol = 0; }
    char lab[96]; snprintf(lab, sizeof lab, "%s%s%s%s%s", l1, v2 >= 0 ? "+" : "", l2, nrhs0 ? "+nrhs=0" : "", legal == 1 ? "+lwork=-1" : legal == 2 ? "+trans,np=3" : legal == 3 ? "+userwork" : "");
    jo_str("violation", lab); jo_int("want", -want);

    uint64_t h0 = fix_hash(&F);
    size_t heap0 = heap_bytes();
    int tasks0 = count_tasks_settled(1);   /* the set-up factorization's workers may still be exiting */
    hx_xerbla_count = 0; hx_xerbla_info = 0; hx_xerbla_name[0] = 0;
    int_t info = 12345; int is_gemv = 0;
    real_t rpg = 0, rcond = 0; superlu_memusage_t mem; memset(&mem, 0, sizeof mem);
    real_t rowcnd = 0, colcnd = 0, amax = 0;
    if (!strcmp(rt, "gssv")) GSSV(nprocs, &F.A, F.perm_c, F.perm_r, &F.L, &F.U, &F.B, &info);
    else if (!strcmp(rt, "gssvx")) GSSVX(nprocs, &F.opt, &F.A, F.perm_c, F.perm_r, &equed, F.R, F.C, &F.L, &F.U, &F.B, &F.X, &rpg, &rcond, F.ferr, F.berr, &mem, &info);
    else if (!strcmp(rt, "gstrs")) GSTRS(tr, &F.L, &F.U, F.perm_r, F.perm_c, &F.B, &F.Gstat, &info);
    else if (!strcmp(rt, "gsrfs")) GSRFS(tr, &F.A, &F.L, &F.U, F.perm_r, F.perm_c, equed, F.R, F.C, &F.B, &F.X, F.ferr, F.berr, &F.Gstat, &info);
    else if (!strcmp(rt, "gscon")) GSCON(s1, &F.L, &F.U, (real_t)1.0, &rcond, &info);
    else if (!strcmp(rt, "gsequ")) GSEQU(&F.A, F.R, F.C, &rowcnd, &colcnd, &amax, &info);
    else if (!strcmp(rt, "trsv")) SP_TRSV(s1, s2, s3, &F.L, &F.U, F.x, &info);
    else if (!strcmp(rt, "gemv")) { is_gemv = 1; SP_GEMV(s1, MKE(1, 0), &F.A, F.x, incx, MKE(1, 0), F.b, incy); info = -hx_xerbla_info; }
    int tasks1 = count_tasks_settled(tasks0);
    size_t heap1 = heap_bytes();
    jo_int("info", info); jo_int("xerbla_calls", hx_xerbla_count); jo_int("xerbla_info", hx_xerbla_info);
    char key[128];
    if (info != -want) { snprintf(key, sizeof key, "C15|wrong-info|%s|%s", rt, lab); jo_fail(key, "%s with %s: info = %ld, documented position is %d", rt, lab, (long)info, want); }
    if (hx_xerbla_count != 1 || hx_xerbla_info != want) { snprintf(key, sizeof key, "C15|error-handler|%s|%s", rt, lab); jo_fail(key, "%s with %s: xerbla_ called %d time(s) with %d (expected once with %d)", rt, lab, hx_xerbla_count, hx_xerbla_info, want); }
    if (fix_hash(&F) != h0) { snprintf(key, sizeof key, "C15|side-effect|%s|%s", rt, lab); jo_fail(key, "%s with %s: argument memory was modified", rt, lab); }
    if (heap1 != heap0) { snprintf(key, sizeof key, "C15|memory-retained|%s|%s", rt, lab); jo_fail(key, "%s with %s: %ld bytes still allocated after the call", rt, lab, (long)heap1 - (long)heap0); }
    if (tasks1 != tasks0) { snprintf(key, sizeof key, "C15|thread-left|%s", rt); jo_fail(key, "thread count changed %d -> %d", tasks0, tasks1); }
    (void)is_gemv;
    jo_end();
    /* undo the damage */
    F.A = A0; F.B = B0; F.X = X0; F.L = L0; F.U = U0; *(DNformat *)F.B.Store = Bs0; *(DNformat *)F.X.Store = Xs0; F.R[F.n / 2] = Rmid; F.C[F.n / 2] = Cmid;
    F.opt.fact = DOFACT; F.opt.lwork = 0; F.opt.work = NULL; F.opt.trans = NOTRANS; free(legal_work);
    fix_free(&F);
    return 0;
}
