/* equil: ?gsequ and ?laqgs called directly (C11) */
#include "hx.h"

#if IS_SINGLE
#define LAMCH slamch_
#else
#define LAMCH dlamch_
#endif

#if IS_SINGLE
#define DENORM_MIN 1.5e-45L
#else
#define DENORM_MIN 5e-324L
#endif
static ld ulp_of(ld x) { return fabsl(x) * 2.0L * UROUND; }
static ld mag(elem_t e) { return IS_COMPLEX ? rabs1(E2R(e)) : rabs(E2R(e)); }

/* entries 2^e with e spread over the exponent range of the precision */
static void respread(const case_t *c, rng_t *rng, csc_t *G)
{
    int span = (int)cint(c, "espan", 0);
    if (!span) return;
    for (int_t k = 0; k < G->nnz; ++k) {
        int e = (int)rng_int(rng, 2 * span + 1) - span;
        double s = (rng_u01(rng) < 0.5) ? -1.0 : 1.0;
        double v = ldexp(s, e);
#if IS_COMPLEX
        if (rng_u01(rng) < 0.5) G->val[k] = MKE(v, 0); else G->val[k] = MKE(0, v);
        if (rng_u01(rng) < 0.3) G->val[k] = MKE(v, ldexp(1.0, e - 1 - (int)rng_int(rng, 3)));
#else
        G->val[k] = MKE(v, 0);
#endif
    }
}

static int e_gsequ(const case_t *c, rng_t *rng, csc_t *G)
{
    int_t m = G->m, n = G->n;
    respread(c, rng, G);
    uint64_t h0 = csc_hash(G);
    SuperMatrix A;
    CREATE_COMPCOL(&A, m, n, G->nnz, G->val, G->rowind, G->colptr, SLU_NC, SLU_DT, SLU_GE);
    real_t *R = xmalloc((m + 1) * sizeof(real_t)), *C = xmalloc((n + 1) * sizeof(real_t));
    for (int_t i = 0; i <= m; ++i) R[i] = (real_t)-9; for (int_t j = 0; j <= n; ++j) C[j] = (real_t)-9;
    real_t rowcnd = (real_t)-9, colcnd = (real_t)-9, amax = (real_t)-9; int_t info = -999;
    GSEQU(&A, R, C, &rowcnd, &colcnd, &amax, &info);
    jo_int("m", m); jo_int("n", n); jo_int("info", info);
    if (csc_hash(G) != h0) jo_fail("C11|gsequ-modified-A", "?gsequ modified A");
    ld smlnum = (ld)LAMCH("S"), bignum = 1.0L / smlnum;
    /* reference */
    ld *rmax = xcalloc(m + 1, sizeof(ld)), *cmax = xcalloc(n + 1, sizeof(ld));
    for (int_t j = 0; j < n; ++j) for (int_t k = G->colptr[j]; k < G->colptr[j + 1]; ++k) { ld a = mag(G->val[k]); if (a > rmax[G->rowind[k]]) rmax[G->rowind[k]] = a; }
    long want = 0;
    if (m > 0 && n > 0) {
        for (int_t i = 0; i < m && !want; ++i) if (rmax[i] == 0) want = i + 1;
    }
    ld amx = 0, rmin = bignum; for (int_t i = 0; i < m; ++i) { if (rmax[i] > amx) amx = rmax[i]; if (rmax[i] < rmin) rmin = rmax[i]; }
    if (m == 0 || n == 0) {
        if (info != 0 || rowcnd != 1 || colcnd != 1 || amax != 0) jo_fail("C11|gsequ-empty", "empty matrix: info %ld rowcnd %g colcnd %g amax %g", (long)info, (double)rowcnd, (double)colcnd, (double)amax);
    } else if (want) {
        if (info != want) jo_fail("C11|gsequ-zero-row-index", "first exactly zero row is %ld but info = %ld", want - 1, (long)info);
    } else {
        /* rows fine: R defined */
        int clipped = 0;
        for (int_t i = 0; i < m; ++i) {
            ld cl = rmax[i] < smlnum ? smlnum : (rmax[i] > bignum ? bignum : rmax[i]);
            if (cl != rmax[i]) clipped = 1;
            ld wr = 1.0L / cl;
            if (!(R[i] > 0) || !isfinite((double)R[i])) { jo_fail("C11|scale-factor-range", "R[%ld] = %g", (long)i, (double)R[i]); break; }
            if (fabsl((ld)R[i] - wr) > 1.5L * ulp_of(wr)) { jo_fail("C11|gsequ-R", "R[%ld] = %.9g, expected 1/max|a_ij| = %.9Lg", (long)i, (double)R[i], wr); break; }
            if (cl == rmax[i]) { ld p = (ld)R[i] * rmax[i]; if (fabsl(p - 1.0L) > 4.0L * 2 * UROUND) { jo_fail("C11|gsequ-row-not-unit", "row %ld: max of R*A = %.12Lg", (long)i, p); break; } }
        }
        if (fabsl((ld)amax - amx) > (IS_COMPLEX ? 1.5L * ulp_of(amx) : 0)) jo_fail("C11|gsequ-amax", "amax = %.9g, true largest entry %.9Lg", (double)amax, amx);
        {   ld w = (rmin < smlnum ? smlnum : rmin) / (amx > bignum ? bignum : amx);
            if (fabsl((ld)rowcnd - w) > 2.0L * ulp_of(w) + DENORM_MIN) jo_fail("C11|gsequ-rowcnd", "rowcnd = %.9g, expected %.9Lg", (double)rowcnd, w); }
        /* columns, using the R that was returned */
        for (int_t j = 0; j < n; ++j) for (int_t k = G->colptr[j]; k < G->colptr[j + 1]; ++k) {
            /* as the routine forms it, in working precision: a product that underflows to zero makes the
               column look empty to the routine, exactly as in LAPACK */
            volatile real_t prod = (real_t)mag(G->val[k]) * R[G->rowind[k]];
            ld a = (ld)prod;
            if (a > cmax[j]) cmax[j] = a;
        }
        long wantc = 0;
        for (int_t j = 0; j < n && !wantc; ++j) if (cmax[j] == 0) wantc = m + j + 1;
        if (wantc) {
            /* a column can only be "zero" here if all its entries are zero (or vanish under R: not with R>0 unless underflow) */
            if (info != wantc) jo_fail("C11|gsequ-zero-col-index", "first exactly zero column is %ld but info = %ld (m = %ld)", wantc - m - 1, (long)info, (long)m);
        } else {
            if (info != 0) jo_fail("C11|gsequ-info", "no zero row or column but info = %ld", (long)info);
            ld cmx = 0, cmn = bignum;
            for (int_t j = 0; j < n; ++j) {
                ld cl = cmax[j] < smlnum ? smlnum : (cmax[j] > bignum ? bignum : cmax[j]);
                ld wc = 1.0L / cl;
                if (cmax[j] > cmx) cmx = cmax[j]; if (cmax[j] < cmn) cmn = cmax[j];
                if (!(C[j] > 0) || !isfinite((double)C[j])) { jo_fail("C11|scale-factor-range", "C[%ld] = %g", (long)j, (double)C[j]); break; }
                if (fabsl((ld)C[j] - wc) > 4.0L * ulp_of(wc)) { jo_fail("C11|gsequ-C", "C[%ld] = %.9g, expected %.9Lg", (long)j, (double)C[j], wc); break; }
                if (cl == cmax[j] && !clipped) { ld p = (ld)C[j] * cmax[j]; if (fabsl(p - 1.0L) > 8.0L * 2 * UROUND) { jo_fail("C11|gsequ-col-not-unit", "column %ld: max of R*A*C = %.12Lg", (long)j, p); break; } }
            }
            ld w = (cmn < smlnum ? smlnum : cmn) / (cmx > bignum ? bignum : cmx);
            if (fabsl((ld)colcnd - w) > 6.0L * ulp_of(w) + DENORM_MIN) jo_fail("C11|gsequ-colcnd", "colcnd = %.9g, expected %.9Lg", (double)colcnd, w);
        }
    }
    free(rmax); free(cmax); free(R); free(C);
    Destroy_SuperMatrix_Store(&A);
    return 0;
}

static int e_laqgs(const case_t *c, rng_t *rng, csc_t *G)
{
    int_t m = G->m, n = G->n;
    respread(c, rng, G);
    csc_t G0 = csc_clone(G);
    SuperMatrix A;
    CREATE_COMPCOL(&A, m, n, G->nnz, G->val, G->rowind, G->colptr, SLU_NC, SLU_DT, SLU_GE);
    real_t *R = xmalloc((m + 1) * sizeof(real_t)), *C = xmalloc((n + 1) * sizeof(real_t));
    for (int_t i = 0; i < m; ++i) R[i] = (real_t)ldexp(1.0 + 0.5 * rng_u01(rng), (int)rng_int(rng, 21) - 10);
    for (int_t j = 0; j < n; ++j) C[j] = (real_t)ldexp(1.0 + 0.5 * rng_u01(rng), (int)rng_int(rng, 21) - 10);
    /* the decision inputs straddle the documented thresholds */
    static const double cnds[] = {1.0, 0.5, 0.1000001, 0.1, 0.0999999, 0.01, 1e-8};
    ld small = (ld)LAMCH("Safe minimum") / (ld)LAMCH("Precision"), large = 1.0L / small;
    real_t rowcnd = (real_t)cnds[rng_int(rng, 7)], colcnd = (real_t)cnds[rng_int(rng, 7)];
    real_t amax;
    switch (rng_int(rng, 5)) { case 0: amax = (real_t)(small * 0.5L); break; case 1: amax = (real_t)(large * 2.0L); break; case 2: amax = (real_t)small; break; default: amax = (real_t)1.0; }
    if (cint(c, "rcfrom", 0) && m > 0 && n > 0) {
        /* the realistic pipeline: scale factors, ratios and amax as ?gsequ computes them for this very matrix (rows and
           columns spanning hundreds of binades give factors near the clipping bounds) */
        real_t rc0 = 0, cc0 = 0, am0 = 0; int_t inf0 = -1;
        GSEQU(&A, R, C, &rc0, &cc0, &am0, &inf0);
        if (inf0 == 0) { rowcnd = rc0; colcnd = cc0; amax = am0; }
        else { for (int_t i = 0; i < m; ++i) R[i] = (real_t)1; for (int_t j = 0; j < n; ++j) C[j] = (real_t)1; }
    }
    equed_t equed = (equed_t)77;
    LAQGS(&A, R, C, rowcnd, colcnd, amax, &equed);
    jo_int("m", m); jo_int("n", n); jo_int("equed", (int)equed);
    equed_t want;
    if (m <= 0 || n <= 0) want = NOEQUIL;
    else if ((ld)rowcnd >= 0.1L && (ld)amax >= small && (ld)amax <= large) want = ((ld)colcnd >= 0.1L) ? NOEQUIL : COL;
    else want = ((ld)colcnd >= 0.1L) ? ROW : BOTH;
    /* exactly at the threshold the working-precision comparison decides: 0.1 is not representable */
    int borderline = (fabsl((ld)rowcnd - 0.1L) < 1e-6L || fabsl((ld)colcnd - 0.1L) < 1e-6L);
    if (equed != want && !(borderline && (int)equed >= 0 && (int)equed <= 3)) jo_fail("C11|laqgs-rule", "rowcnd %g colcnd %g amax %g: equed = %d, documented rule gives %d", (double)rowcnd, (double)colcnd, (double)amax, (int)equed, (int)want);
    if ((int)equed < 0 || (int)equed > 3) { jo_fail("C11|equed-range", "equed = %d", (int)equed); equed = NOEQUIL; }
    int rowe = (equed == ROW || equed == BOTH), cole = (equed == COL || equed == BOTH);
    for (int_t j = 0; j < n; ++j) for (int_t k = G->colptr[j]; k < G->colptr[j + 1]; ++k) {
        int_t i = G->rowind[k];
        elem_t v0 = G0.val[k], got = G->val[k], w = v0;
        volatile real_t s = (real_t)1;
        if (rowe && cole) s = (real_t)(C[j] * R[i]); else if (rowe) s = R[i]; else if (cole) s = C[j];
        if (rowe || cole) {
#if IS_COMPLEX
            w.r = (real_t)(v0.r * s); w.i = (real_t)(v0.i * s);
#else
            w = (real_t)(v0 * s);
#endif
        }
        if (memcmp(&got, &w, sizeof got)) {
            /* allow the other association (a*c)*r for BOTH */
            ld want2 = rabs(E2R(v0)) * (rowe ? (ld)R[i] : 1) * (cole ? (ld)C[j] : 1);
            if (!(rowe && cole) || fabsl(rabs(E2R(got)) - want2) > 3.0L * ulp_of(want2)) {
                jo_fail(rowe || cole ? "C11|laqgs-scaling" : "C11|A-changed-without-flag", "equed = %d: A(%ld,%ld) = %.9Lg, expected %.9Lg", (int)equed, (long)i, (long)j, rabs(E2R(got)), want2);
                j = n; break;
            }
        }
    }
    free(R); free(C); csc_free(&G0);
    Destroy_SuperMatrix_Store(&A);
    return 0;
}

int cmd_equil(const case_t *c)
{
    rng_t rng = { (uint64_t)cint(c, "seed", 1) * 2654435761ULL + 1717 };
    csc_t G;
    if (gen_matrix(c, &rng, &G)) { jo_begin(c); jo_str("error", "gen_matrix"); jo_end(); return 2; }
    const char *sub = cstr(c, "sub", "gsequ");
    jo_begin(c);
    jo_str("sub", sub); jo_int("nnz", G.nnz);
    if (!strcmp(sub, "gsequ")) e_gsequ(c, &rng, &G); else e_laqgs(c, &rng, &G);
    jo_end();
    csc_free(&G);
    return 0;
}
