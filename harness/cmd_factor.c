/* gssv: simple driver (C01, C09, C04, C05)   gstrf: direct factorization (C02, C03, C04, C05, C09, C16) */
#include "hx.h"

static void parse_list(const char *s, int_t *out, int_t n)
{
    int_t k = 0;
    while (s && *s && k < n) { out[k++] = (int_t)strtol(s, (char **)&s, 10); if (*s == ',') ++s; }
    for (; k < n; ++k) out[k] = k;
}

static void emit_stats(const evstats_t *st)
{
    jo_int("ev", st->n_events); jo_int("panels", st->panels); jo_int("relaxed", st->relaxed_panels);
    jo_int("pipe_takes", st->pipelined_takes); jo_int("waits_blocked", st->waits_blocked); jo_int("wait_points", st->wait_points);
    jo_int("busy_upd", st->busy_updates); jo_int("done_upd", st->done_updates); jo_int("prunes", st->prunes);
    jo_int("prune_swaps", st->prune_swaps); jo_int("xchg", st->xchg); jo_int("thr_panels", st->threads_with_panels);
    jo_int("ns_mismatch", st->nsuper_order_mismatch); jo_int("sub_reads", st->sub_reads);
    jo_int("ovl_pp", st->prune_overlap_prune); jo_int("ovl_ps", st->prune_overlap_subread);
    jo_int("max_tail", st->max_tail); jo_int("sched_none", mon_sched_none()); jo_int("dynsetmaps", st->dynsetmaps);
}

static int_t *final_first(const SuperMatrix *L, int_t n)
{
    const SCPformat *Ls = L->Store;
    int_t *f = xmalloc((n + 1) * sizeof(int_t));
    for (int_t j = 0; j < n; ++j) {
        int_t s = Ls->col_to_sup[j];
        f[j] = (s >= 0 && s <= Ls->nsuper) ? Ls->sup_to_colbeg[s] : -1;
    }
    return f;
}

static void dump_on_fail(const case_t *c, const ev_t *ev, size_t nev)
{
    const char *dir = cstr(c, "dumpdir", NULL);
    if (!dir || !jo_nfail() || !nev) return;
    char path[512];
    snprintf(path, sizeof path, "%s/events_%c_%ld.log", dir, PREC_CH, cint(c, "id", 0));
    mon_dump(ev, nev, path);
    jo_str("eventlog", path);
}

/* diagonal preference, judged from the returned factors (see DESIGN 5/C02) */
static real_t wabs1(ref_t v)      /* the magnitude the library compares, in its own arithmetic: |x|, resp. |re| + |im| */
{
#if IS_COMPLEX
    real_t re = (real_t)creall(v), im = (real_t)cimagl(v);
    real_t a = (real_t)fabsl((ld)re), b = (real_t)fabsl((ld)im);
    return (real_t)(a + b);
#else
    return (real_t)fabsl((ld)(real_t)v);
#endif
}
static void check_diag_pref(const lud_t *d, const int_t *perm_r, const int_t *perm_c, ld u, long *checked, long *undec, const ref_t *Gd, long *ties)
{
    int_t n = d->n;
    int_t *ipc = xmalloc((n + 1) * sizeof(int_t));
    for (int_t c = 0; c < n; ++c) ipc[perm_c[c]] = c;
    long nv = 0;
    for (int_t j = 0; j < n; ++j) {
        int_t drow = ipc[j];           /* original row carrying the diagonal of column j of A*Pc */
        int_t p = perm_r[drow];
        if (p == j) { ++*checked; continue; }   /* diagonal was chosen */
        if (p < j) continue;                     /* row already used as an earlier pivot */
        if (Gd && u == 1.0L) {
            /* a column that received no update (no entry of U above its diagonal): its candidates are the entries of A themselves,
               so the comparison the library made can be repeated exactly - ties included (|a_jj| == max meets the threshold u = 1) */
            int untouched = 1;
            for (int_t k = 0; k < j && untouched; ++k) if (d->U[(size_t)j * n + k] != 0) untouched = 0;
            if (untouched) {
                real_t dg = wabs1(Gd[(size_t)drow * n + drow]), mxw = 0;
                for (int_t i = 0; i < n; ++i) if (perm_r[i] >= j) { real_t a = wabs1(Gd[(size_t)drow * n + i]); if (a > mxw) mxw = a; }
                ++*checked;
                if (dg != 0 && dg >= mxw) {
                    if (dg == mxw) ++*ties;
                    if (nv++ == 0)
                        jo_fail("C02|diagonal-not-preferred", "step %ld (column without updates, exact comparison): |a_jj| = %.9g is nonzero and meets the threshold %.9g (u = 1) but row %ld was chosen instead",
                                (long)j, (double)dg, (double)mxw, (long)p);
                }
                continue;
            }
        }
        ref_t piv = d->U[(size_t)j * n + j];
        ref_t l = d->L[(size_t)j * n + p];
        if (l == 0 || piv == 0) continue;        /* diagonal structurally/numerically zero at this step */
        ld cand = rabs1(l * piv), mx = rabs1(piv);
        for (int_t i = j + 1; i < n; ++i) { ref_t li = d->L[(size_t)j * n + i]; if (li != 0) { ld a = rabs1(li * piv); if (a > mx) mx = a; } }
        ld thr = u * mx;
        if (cand >= thr * (1.0L + 16.0L * UROUND) && cand > 0) {
            ++*checked;
            if (nv++ == 0)
                jo_fail("C02|diagonal-not-preferred", "step %ld: diagonal candidate %.6Le meets threshold %.6Le (u=%.3Lg) but row %ld was chosen instead",
                        (long)j, cand, thr, u, (long)p);
        } else if (cand >= thr * (1.0L - 16.0L * UROUND)) ++*undec;
        else ++*checked;
    }
    free(ipc);
}

int cmd_gstrf(const case_t *c)
{
    rng_t rng = { (uint64_t)cint(c, "seed", 1) * 2654435761ULL + 12345 };
    csc_t G;
    hx_ienv_from_case(c);
    if (gen_matrix(c, &rng, &G)) { jo_begin(c); jo_str("error", "gen_matrix"); jo_end(); return 2; }
    int_t n = G.n;
    int nprocs = (int)cint(c, "np", 1);
    int ord = (int)cint(c, "ord", 0);
    /* what the caller passes as options (wopt / relaxopt) need not be what sp_ienv(1)/(2) answer (w / relax) */
    int w = (int)cint(c, "wopt", hx_ienv[1]), relax = (int)cint(c, "relaxopt", hx_ienv[2]);
    double u = cdbl(c, "u", 1.0);
    int usepr = (int)cint(c, "usepr", 0);
    int symm = (int)cint(c, "symm", 0);
    uint64_t h0 = csc_hash(&G);

    SuperMatrix A, AC, L, U;
    superlumt_options_t opt;
    Gstat_t Gstat;
    int_t *perm_c = xmalloc((n + 1) * sizeof(int_t)), *perm_r = xmalloc((n + 1) * sizeof(int_t));
    int_t info = 0;
    memset(&L, 0, sizeof L); memset(&U, 0, sizeof U);
    CREATE_COMPCOL(&A, G.m, G.n, G.nnz, G.val, G.rowind, G.colptr, SLU_NC, SLU_DT, SLU_GE);
    if (ord >= 0) get_perm_c(ord, &A, perm_c); else for (int_t j = 0; j < n; ++j) perm_c[j] = j;
    if (usepr) parse_list(cstr(c, "fperm", ""), perm_r, n);
    StatAlloc(n, nprocs, w, relax, &Gstat);
    StatInit(n, nprocs, &Gstat);
    if (!symm) {
        GSTRF_INIT(nprocs, DOFACT, NOTRANS, NO, w, relax, u, usepr ? YES : NO, 0.0, perm_c, perm_r, NULL, 0, &A, &AC, &opt, &Gstat);
    } else {
        /* p?gstrf_init has no SymmetricMode argument: fill the option structure the way
           EXAMPLE/p?linsolx2.c does and run the preprocessing step directly */
        memset(&opt, 0, sizeof opt);
        opt.nprocs = nprocs; opt.fact = DOFACT; opt.trans = NOTRANS; opt.refact = NO;
        opt.panel_size = w; opt.relax = relax; opt.diag_pivot_thresh = u; opt.usepr = usepr ? YES : NO;
        opt.drop_tol = 0.0; opt.SymmetricMode = YES; opt.PrintStat = NO;
        opt.perm_c = perm_c; opt.perm_r = perm_r; opt.work = NULL; opt.lwork = 0;
        opt.etree = intMalloc(n); opt.colcnt_h = intMalloc(n); opt.part_super_h = intMalloc(n);
        sp_colorder(&A, perm_c, &opt, &AC);
    }
    int_t *fperm_in = NULL;
    if (usepr) { fperm_in = xmalloc((n + 1) * sizeof(int_t)); memcpy(fperm_in, perm_r, n * sizeof(int_t)); }

    mon_reset();
    mon_enable(1, (uint64_t)cint(c, "pert", 0), (int)cint(c, "pmode", 0), (int)cint(c, "plevel", 1), nprocs);
    int tasks0 = HX_TSAN ? count_tasks() : count_tasks_settled(1 + hx_extra_threads), fds0 = count_fds();      /* (threads of an earlier case of the batch may still be leaving /proc) */
    double t0 = now_s();
    GSTRF(&opt, &AC, perm_r, &L, &U, &Gstat, &info);
    double t1 = now_s();
    int tasks1 = HX_TSAN ? count_tasks() : count_tasks_settled(tasks0), fds1 = count_fds();
    if (HX_TSAN && tasks1 == tasks0 + 1) tasks1 = tasks0;   /* TSan's own background thread */
    mon_disable();

    if (getenv("HX_DEBUG")) {
        fprintf(stderr, "perm_c:"); for (int_t j = 0; j < n; ++j) fprintf(stderr, " %ld", (long)opt.perm_c[j]);
        fprintf(stderr, "\nperm_r:"); for (int_t j = 0; j < n; ++j) fprintf(stderr, " %ld", (long)perm_r[j]);
        fprintf(stderr, "\netree:"); for (int_t j = 0; j < n; ++j) fprintf(stderr, " %ld", (long)opt.etree[j]);
        fprintf(stderr, "\ncolcnt:"); for (int_t j = 0; j < n; ++j) fprintf(stderr, " %ld", (long)opt.colcnt_h[j]);
        fprintf(stderr, "\npart:"); for (int_t j = 0; j < n; ++j) fprintf(stderr, " %ld", (long)opt.part_super_h[j]);
        fprintf(stderr, "\nA (col: rows):\n"); for (int_t j = 0; j < n; ++j) { fprintf(stderr, " %ld:", (long)j); for (int_t k = G.colptr[j]; k < G.colptr[j + 1]; ++k) fprintf(stderr, " %ld", (long)G.rowind[k]); fprintf(stderr, "\n"); }
    }
    jo_begin(c);
    jo_int("n", n); jo_int("nnz", G.nnz); jo_int("np", nprocs); jo_int("info", info);
    jo_dbl("secs", t1 - t0); jo_int("perturbs", mon_perturbs());
    if ((tasks0 != 1 + hx_extra_threads && !HX_TSAN) || tasks1 != tasks0) jo_fail("C04|threads-left", "thread count %d before and %d after the factorization", tasks0, tasks1);
    if (fds1 != fds0) jo_fail("C17|fd-leak", "open descriptors %d before, %d after", fds0, fds1);
    if (csc_hash(&G) != h0) jo_fail("C01|A-modified", "the input matrix changed during factorization");

    ev_t *ev = NULL; size_t nev = mon_collect(&ev);
    evstats_t st; memset(&st, 0, sizeof st);
    int expect_sing = (int)cint(c, "expect_singular", 0);
    if (info == 0 || (info > 0 && info <= n)) {
        long nsuper = 0, maxsup = 0;
        int vbad = info == 0 ? validate_LU(&L, &U, perm_r, opt.perm_c, n, "C09", &nsuper, &maxsup) : walk_LU(&L, &U, n, "C06|factors");
        jo_int("nsuper", nsuper); jo_int("maxsup", maxsup);
        /* the per-thread work arrays (TriTmp | MatvecTmp strips of maxsuper + rowblk entries, SPA panels) are laid out for
           supernodes of at most sp_ienv(3) columns; with relax <= sp_ienv(3) no returned supernode may be wider */
        if (info == 0 && hx_ienv[2] <= hx_ienv[3] && maxsup > hx_ienv[3])
            jo_fail("C05|supernode-wider-than-maxsuper", "a supernode of %ld columns was formed although sp_ienv(3) = %ld (relax = %ld): the work-array layout assumes at most sp_ienv(3)", maxsup, (long)hx_ienv[3], (long)hx_ienv[2]);
        if (vbad && info == 0) jo_fail("C02|factors-malformed", "info = 0 but the returned L/U/permutations are not well-formed (%d structural defects): no factorization to check", vbad);
        int_t *ff = vbad ? NULL : final_first(&L, n);
        mon_analyze(ev, nev, n, opt.etree, ff, nprocs, &st);
        emit_stats(&st);
        free(ff);
        if (info == 0 && !vbad && cint(c, "oracle", 1)) {
            lud_t d; ld *W = NULL, growth = 0;
            lud_extract(&L, &U, n, &d);
            ref_t *Gd = csc_dense(&G);
            ld rr = check_reconstruction(Gd, &d, perm_r, opt.perm_c, &W, &growth, "C02|reconstruction");
            ld mr = check_multipliers(&d, (ld)u, "C02|multiplier-bound");
            jo_dbl("recon", (double)rr); jo_dbl("mult", (double)mr); jo_dbl("growth", (double)growth);
            long chk = 0, und = 0;
            long ties = 0;
            if (!usepr) check_diag_pref(&d, perm_r, opt.perm_c, (ld)u, &chk, &und, (G.m == n) ? Gd : NULL, &ties);
            jo_int("diag_checked", chk); jo_int("diag_undecided", und); jo_int("diag_ties", ties);
            if (usepr && fperm_in) {
                int same = !memcmp(fperm_in, perm_r, n * sizeof(int_t));
                jo_int("usepr_kept", same);
            }
            if (symm) {
                int same = 1; for (int_t i = 0; i < n; ++i) if (perm_r[i] != opt.perm_c[i]) { same = 0; break; }
                jo_int("symm_diag", same);
                if (!same && cint(c, "expect_diag", 0)) jo_fail("C16|offdiagonal-pivot", "symmetric mode with dominant diagonal: perm_r != perm_c");
                /* (the fill-versus-prediction claim is decided by the slot-bound monitor at every L allocation) */
            }
            free(W); free(Gd); lud_free(&d);
        }
        if (info != 0 && !expect_sing) jo_fail("C01|info-nonzero", "factorization of a nonsingular matrix returned info=%ld", (long)info);
    } else {
        jo_fail("C14|unexpected-info", "factorization returned info=%ld (n=%ld)", (long)info, (long)n);
    }
    dump_on_fail(c, ev, nev);
    free(ev);
    if (info >= 0 && info <= n) { Destroy_SuperNode_SCP(&L); Destroy_CompCol_NCP(&U); }
    /* reps > 1: the same factorization again and again (other schedules), each one analysed by the event checker */
    long reps = cint(c, "reps", 1), reps_done = 1, takes = 0;
    for (long rep = 1; rep < reps && info == 0 && !jo_nfail(); ++rep) {
        SuperMatrix L2, U2; int_t info2 = 0;
        memset(&L2, 0, sizeof L2); memset(&U2, 0, sizeof U2);
        mon_reset();
        mon_enable(1, (uint64_t)cint(c, "pert", 0) + (uint64_t)rep, (int)cint(c, "pmode", 0), (int)cint(c, "plevel", 1), nprocs);
        GSTRF(&opt, &AC, perm_r, &L2, &U2, &Gstat, &info2);
        mon_disable();
        ev_t *ev2 = NULL; size_t nev2 = mon_collect(&ev2);
        evstats_t st2; memset(&st2, 0, sizeof st2);
        if (info2 != 0) jo_fail("C01|info-nonzero", "repetition %ld of the same factorization returned info=%ld", rep, (long)info2);
        else {
            int_t *ff = final_first(&L2, n);
            mon_analyze(ev2, nev2, n, opt.etree, ff, nprocs, &st2);
            free(ff);
            takes += st2.pipelined_takes + st2.dad_takes;
            if (cint(c, "repvalidate", 0)) { long ns2 = 0, ms2 = 0; validate_LU(&L2, &U2, perm_r, opt.perm_c, n, "C09", &ns2, &ms2); }
        }
        if (jo_nfail()) dump_on_fail(c, ev2, nev2);
        free(ev2);
        if (info2 >= 0 && info2 <= n) { Destroy_SuperNode_SCP(&L2); Destroy_CompCol_NCP(&U2); }
        ++reps_done;
    }
    if (reps > 1) { jo_int("reps_done", reps_done); jo_int("rep_pipe_takes", takes); }
    jo_end();
    pxgstrf_finalize(&opt, &AC);
    StatFree(&Gstat);
    Destroy_SuperMatrix_Store(&A);
    free(perm_c); free(perm_r); free(fperm_in);
    csc_free(&G);
    return 0;
}

int cmd_gssv(const case_t *c)
{
    rng_t rng = { (uint64_t)cint(c, "seed", 1) * 2654435761ULL + 777 };
    csc_t G;
    hx_ienv_from_case(c);
    if (gen_matrix(c, &rng, &G)) { jo_begin(c); jo_str("error", "gen_matrix"); jo_end(); return 2; }
    int_t n = G.n;
    int nprocs = (int)cint(c, "np", 1);
    int ord = (int)cint(c, "ord", 0);
    int nr = !strcmp(cstr(c, "stype", "nc"), "nr");
    int_t nrhs = cint(c, "nrhs", 1);
    int_t ldb = n + cint(c, "ldpad", 0); if (ldb < 1) ldb = 1;
    uint64_t h0 = csc_hash(&G);

    SuperMatrix A, L, U, B;
    int_t *perm_c = xmalloc((n + 1) * sizeof(int_t)), *perm_r = xmalloc((n + 1) * sizeof(int_t));
    elem_t *b = xmalloc(((size_t)ldb * (nrhs > 0 ? nrhs : 1) + 1) * sizeof(elem_t));
    elem_t *b0 = xmalloc(((size_t)ldb * (nrhs > 0 ? nrhs : 1) + 1) * sizeof(elem_t));
    gen_rhs(&rng, n, nrhs, ldb, b, cstr(c, "rhs", "generic"));
    memcpy(b0, b, (size_t)ldb * nrhs * sizeof(elem_t));
    int_t info = 0;
    memset(&L, 0, sizeof L); memset(&U, 0, sizeof U);
    /* the CSC arrays of G are handed over either as column-wise A = G or as row-wise A = G^T */
    CREATE_COMPCOL(&A, G.m, G.n, G.nnz, G.val, G.rowind, G.colptr, nr ? SLU_NR : SLU_NC, SLU_DT, SLU_GE);
    CREATE_DENSE(&B, n, nrhs, b, ldb, SLU_DN, SLU_DT, SLU_GE);
    {   /* the ordering is computed on the column-wise matrix that will be factored (G) */
        SuperMatrix Gc;
        CREATE_COMPCOL(&Gc, G.m, G.n, G.nnz, G.val, G.rowind, G.colptr, SLU_NC, SLU_DT, SLU_GE);
        if (ord >= 0) get_perm_c(ord, &Gc, perm_c); else for (int_t j = 0; j < n; ++j) perm_c[j] = j;
        Destroy_SuperMatrix_Store(&Gc);
    }
    mon_reset();
    mon_enable(1, (uint64_t)cint(c, "pert", 0), (int)cint(c, "pmode", 0), (int)cint(c, "plevel", 1), nprocs);
    int tasks0 = HX_TSAN ? count_tasks() : count_tasks_settled(1 + hx_extra_threads), fds0 = count_fds();      /* (threads of an earlier case of the batch may still be leaving /proc) */
    double t0 = now_s();
    GSSV(nprocs, &A, perm_c, perm_r, &L, &U, &B, &info);
    double t1 = now_s();
    int tasks1 = HX_TSAN ? count_tasks() : count_tasks_settled(tasks0), fds1 = count_fds();
    if (HX_TSAN && tasks1 == tasks0 + 1) tasks1 = tasks0;   /* TSan's own background thread */
    mon_disable();

    jo_begin(c);
    jo_int("n", n); jo_int("nnz", G.nnz); jo_int("np", nprocs); jo_int("info", info); jo_int("nrhs", nrhs);
    jo_dbl("secs", t1 - t0); jo_int("perturbs", mon_perturbs());
    if ((tasks0 != 1 + hx_extra_threads && !HX_TSAN) || tasks1 != tasks0) jo_fail("C04|threads-left", "thread count %d before and %d after the driver call", tasks0, tasks1);
    if (fds1 != fds0) jo_fail("C17|fd-leak", "open descriptors %d before, %d after", fds0, fds1);
    if (csc_hash(&G) != h0) jo_fail("C01|A-modified", "the input matrix A changed during the driver call");
    if (A.Stype != (nr ? SLU_NR : SLU_NC) || A.nrow != n || A.ncol != n || ((NCformat *)A.Store)->nnz != G.nnz ||
        ((NCformat *)A.Store)->nzval != G.val || ((NCformat *)A.Store)->rowind != G.rowind || ((NCformat *)A.Store)->colptr != G.colptr)
        jo_fail("C01|A-modified", "the header of A changed during the driver call");
    for (int_t j = 0; j < nrhs; ++j) for (int_t i = n; i < ldb; ++i)
        if (memcmp(&b[(size_t)j * ldb + i], &b0[(size_t)j * ldb + i], sizeof(elem_t))) { jo_fail("C01|B-padding-written", "padding rows of B (ldb > n) were overwritten"); j = nrhs; break; }

    ev_t *ev = NULL; size_t nev = mon_collect(&ev);
    evstats_t st; memset(&st, 0, sizeof st);
    int expect_sing = (int)cint(c, "expect_singular", 0);
    if (info == 0) {
        long nsuper = 0, maxsup = 0;
        int vbad = validate_LU(&L, &U, perm_r, perm_c, n, "C09", &nsuper, &maxsup);
        jo_int("nsuper", nsuper); jo_int("maxsup", maxsup);
        /* the per-thread work arrays (TriTmp | MatvecTmp strips of maxsuper + rowblk entries, SPA panels) are laid out for
           supernodes of at most sp_ienv(3) columns; with relax <= sp_ienv(3) no returned supernode may be wider */
        if (info == 0 && hx_ienv[2] <= hx_ienv[3] && maxsup > hx_ienv[3])
            jo_fail("C05|supernode-wider-than-maxsuper", "a supernode of %ld columns was formed although sp_ienv(3) = %ld (relax = %ld): the work-array layout assumes at most sp_ienv(3)", maxsup, (long)hx_ienv[3], (long)hx_ienv[2]);
        if (vbad) {
            jo_fail("C02|factors-malformed", "info = 0 but the returned L/U/permutations are not well-formed (%d structural defects)", vbad);
            jo_fail("C01|factors-malformed", "info = 0 but the returned factors are not well-formed: the residual bound cannot be evaluated");
        }
        int_t *ff = vbad ? NULL : final_first(&L, n);
        mon_analyze(ev, nev, n, NULL, ff, nprocs, &st);
        emit_stats(&st);
        free(ff);
        if (!vbad && cint(c, "oracle", 1)) {
            lud_t d; ld *W = NULL, growth = 0;
            lud_extract(&L, &U, n, &d);
            ref_t *Gd = csc_dense(&G);
            ld rr = check_reconstruction(Gd, &d, perm_r, perm_c, &W, &growth, "C02|reconstruction");
            /* A = G (NC) or A = G^T (NR): residual of A X = B */
            ld xr = check_residual(Gd, n, nr ? 1 : 0, b, ldb, b0, ldb, nrhs, W, perm_r, perm_c, gam(3.0L * n), "C01|residual");
            jo_dbl("recon", (double)rr); jo_dbl("resid", (double)xr); jo_dbl("growth", (double)growth);
            free(W); free(Gd); lud_free(&d);
        }
        if (expect_sing == 1) jo_fail("C06|singular-not-reported", "singular matrix but info = 0");
    } else if (info > 0 && info <= n) {
        if (!expect_sing) jo_fail("C01|info-nonzero", "simple driver returned info=%ld for a nonsingular matrix", (long)info);
        if (memcmp(b, b0, (size_t)ldb * nrhs * sizeof(elem_t))) jo_fail("C06|B-changed", "info=%ld > 0 but B was modified", (long)info);
        if (!is_perm(perm_c, n)) jo_fail("C06|perm_c-not-bijection", "perm_c is not a permutation");
        else if (cint(c, "zerocols", 0) > 0 && gen_nzerocols > 0) {
            long want = n + 1; for (int q = 0; q < gen_nzerocols; ++q) if (perm_c[gen_zerocols[q]] + 1 < want) want = perm_c[gen_zerocols[q]] + 1;
            jo_int("first_deficient", want);
            if (want != info) jo_fail("C06|wrong-index", "info = %ld but the first of the %d all-zero columns sits at position %ld of A*Pc", (long)info, gen_nzerocols, want);
        } else if (cint(c, "zerocol", -1) >= 0) {
            long want = perm_c[cint(c, "zerocol", 0)] + 1;
            jo_int("first_deficient", want);
            if (want != info) jo_fail("C06|wrong-index", "info = %ld but the all-zero column sits at position %ld of A*Pc", (long)info, want);
        } else if (cint(c, "onesblock", 0)) {
            long want = ones_expected_info(perm_c);
            jo_int("first_deficient", want);
            if (want != info) jo_fail("C06|wrong-index", "info = %ld but exact cancellation first occurs at column %ld of A*Pc", (long)info, want);
        } else if (cint(c, "generic_singular", 0)) {
            long want = struct_rank_prefix(&G, perm_c);
            jo_int("first_deficient", want);
            if (want != info) jo_fail("C06|wrong-index", "info = %ld but the first structurally deficient column prefix is %ld", (long)info, want);
        }
        walk_LU(&L, &U, n, "C06|factors");
    } else {
        jo_fail("C01|info-range", "simple driver returned info=%ld (n=%ld)", (long)info, (long)n);
    }
    dump_on_fail(c, ev, nev);
    jo_end();
    free(ev);
    if (info >= 0 && info <= n) { Destroy_SuperNode_SCP(&L); Destroy_CompCol_NCP(&U); }
    Destroy_SuperMatrix_Store(&A); Destroy_SuperMatrix_Store(&B);
    free(perm_c); free(perm_r); free(b); free(b0);
    csc_free(&G);
    return 0;
}
