/* gssvx: expert driver (C06 C07 C11 C12 C13, parts of C08)
 *
 * One case = a first call with fact in {DOFACT, EQUILIBRATE}, judged in full, and optionally
 * a second call with fact = FACTORED (new B, possibly another trans) re-using what came back. */
#include "hx.h"

#if IS_SINGLE
#define LAMCH slamch_
#else
#define LAMCH dlamch_
#endif

typedef struct {
    int_t n, nrhs, ldb, ldx;
    int nr;                 /* row-wise storage */
    csc_t G;                /* arrays handed to the library (scaled in place by equilibration) */
    csc_t G0;               /* pristine copy */
    ref_t *Gd0;             /* dense pristine G */
    elem_t *b, *b0, *x;
    real_t *R, *C, *ferr, *berr;
} sys_t;

#define XSENT_RE (-12345.5)
#define XSENT_IM (54321.25)

static int is_sentinel(elem_t e)
{
#if IS_COMPLEX
    return e.r == (real_t)XSENT_RE && e.i == (real_t)XSENT_IM;
#else
    return e == (real_t)XSENT_RE;
#endif
}

/* opcode (0 G, 1 G^T, 2 G^H, 3 conj G) of op(A) in terms of the stored G */
static int opcode(int nr, int trans)
{
    if (!nr) return trans;                          /* A = G */
    return trans == 0 ? 1 : (trans == 1 ? 0 : 3);   /* A = G^T */
}

/* y = op(G) x in extended precision; also |op(G)||x| */
static void op_apply(const ref_t *Gd, int_t n, int op, const ref_t *x, ref_t *y, ld *ay)
{
    for (int_t i = 0; i < n; ++i) { y[i] = 0; if (ay) ay[i] = 0; }
    for (int_t j = 0; j < n; ++j) for (int_t i = 0; i < n; ++i) {
        ref_t g = Gd[(size_t)j * n + i];
        if (g == 0) continue;
        if (op == 2 || op == 3) g = conjl(g);
        /* magnitudes in the |re|+|im| measure the refinement routine documents (LAPACK CABS1) */
        if (op == 0 || op == 3) { y[i] += g * x[j]; if (ay) ay[i] += rabs1(g) * rabs1(x[j]); }
        else { y[j] += g * x[i]; if (ay) ay[j] += rabs1(g) * rabs1(x[i]); }
    }
}

static ld norm1_dense(const ref_t *M, int_t n)
{ ld best = 0; for (int_t j = 0; j < n; ++j) { ld s = 0; for (int_t i = 0; i < n; ++i) s += rabs(M[(size_t)j * n + i]); if (s > best) best = s; } return best; }
static ld norminf_dense(const ref_t *M, int_t n)
{ ld best = 0; for (int_t i = 0; i < n; ++i) { ld s = 0; for (int_t j = 0; j < n; ++j) s += rabs(M[(size_t)j * n + i]); if (s > best) best = s; } return best; }

static const char *tagged(char *buf, size_t n, const char *key, const char *tag) { snprintf(buf, n, "%s%s", key, tag); return buf; }

/* Judges a call that produced a solution.  bin = B as the caller passed it to this call. */
static void judge_solution(const case_t *c, sys_t *S, int trans, equed_t equed, const SuperMatrix *L, const SuperMatrix *U,
                           const int_t *perm_r, const int_t *perm_c, double rcond_drv, double rpg_drv, int_t info, int first,
                           const elem_t *bin, const char *tag, double u_thresh)
{
    int_t n = S->n, nrhs = S->nrhs;
    char key[96];
    int op = opcode(S->nr, trans);
    /* the driver's effective "notran" with respect to the stored matrix G */
    int notran_eff = S->nr ? (trans != 0) : (trans == 0);
    ref_t *Geq = csc_dense(&S->G);

    ld maxomega = 0, maxferr_ratio = 0, worst_berr_diff = 0; long n_tight = 0;
    ref_t *xr = xmalloc((n + 1) * sizeof(ref_t)), *y = xmalloc((n + 1) * sizeof(ref_t));
    ld *ay = xmalloc((n + 1) * sizeof(ld));
    ref_t *Ginv = xmalloc((size_t)n * n * sizeof(ref_t) + 16);
    int sing = ref_inverse(Geq, n, Ginv);
    ld kappa = 0, anorm = 0, ainvnorm = 0;
    int use1 = notran_eff;
    if (!sing) {
        anorm = use1 ? norm1_dense(Geq, n) : norminf_dense(Geq, n);
        ainvnorm = use1 ? norm1_dense(Ginv, n) : norminf_dense(Ginv, n);
        kappa = anorm * ainvnorm;
    }
    lud_t d; ld *W = NULL, growth = 0; int have_lu = 0;
    memset(&d, 0, sizeof d);
    if (cint(c, "oracle", 1)) {
        long ns = 0, ms = 0;
        snprintf(key, sizeof key, "C09%s", tag);
        int vbad = validate_LU(L, U, perm_r, perm_c, n, key, &ns, &ms);
        if (!vbad) {
            lud_extract(L, U, n, &d); have_lu = 1;
            snprintf(key, sizeof key, "C02|reconstruction%s", tag);
            ld rr = check_reconstruction(Geq, &d, perm_r, perm_c, &W, &growth, key);
            if (first) { jo_dbl("recon", (double)rr); jo_dbl("growth", (double)growth); jo_int("nsuper", ns); }
        } else {
            snprintf(key, sizeof key, "C07|factors-malformed%s", tag);
            jo_fail(key, "returned factors are not well-formed");
        }
    }
    ld uw = UROUND, premise = kappa * (growth > 1 ? growth : 1) * (ld)n * uw;
    int premised = (!sing && have_lu && premise <= 1e-3L);
    if (first) { jo_dbl("kappa", (double)kappa); jo_int("premised", premised); }
    long nzmax = 0;
    for (int_t j = 0; j < n; ++j) { long k = S->G.colptr[j + 1] - S->G.colptr[j]; if (k > nzmax) nzmax = k; }
    {   /* rows can be longer than columns */
        long *rc = xcalloc(n + 1, sizeof(long));
        for (int_t k = 0; k < S->G.nnz; ++k) rc[S->G.rowind[k]]++;
        for (int_t i = 0; i < n; ++i) if (rc[i] > nzmax) nzmax = rc[i];
        free(rc);
    }

    for (int_t cidx = 0; cidx < nrhs; ++cidx) {
        const elem_t *xc = S->x + (size_t)cidx * S->ldx;
        const elem_t *bc = bin + (size_t)cidx * S->ldb;
        int nan = 0;
        for (int_t i = 0; i < n; ++i) { xr[i] = E2R(xc[i]); if (xr[i] != xr[i]) nan = 1; }
        if (nan) { snprintf(key, sizeof key, "C07|X-nan%s", tag); jo_fail(key, "X contains NaN (rhs %ld)", (long)cidx); continue; }
        op_apply(S->Gd0, n, op, xr, y, ay);
        ld omega = 0;
        for (int_t i = 0; i < n; ++i) {
            ld r = rabs1(E2R(bc[i]) - y[i]);
            ld den = ay[i] + rabs1(E2R(bc[i]));
            ld w = (r == 0) ? 0 : (den == 0 ? 1e300L : r / den);
            if (w > omega) omega = w;
        }
        if (omega > maxomega) maxomega = omega;
        /* C13: the reported berr is the componentwise backward error of the X that is returned */
        ld berr = (ld)S->berr[cidx];
        ld tol_b = 4.0L * (nzmax + 6) * UBOUND;   /* rounding of the routine's own residual + final scaling of X */
        ld diff = fabsl(berr - omega);
        if (diff > worst_berr_diff) worst_berr_diff = diff;
        if (!(diff <= tol_b + 0.02L * omega)) {
            snprintf(key, sizeof key, "C13|berr-untruthful%s", tag);
            jo_fail(key, "rhs %ld: reported berr %.3Le but the returned X has componentwise backward error %.3Le (tolerance %.2Le)", (long)cidx, berr, omega, tol_b);
        }
        /* Fixed-precision refinement reaches a componentwise backward error of order u only if, in the system it runs
           on (the equilibrated one), cond(A^-1) * sigma(A,x) * u is small, sigma = max_i(|A||x|+|b|)_i / min_i(...)_i
           (Skeel 1980; Higham, ASNA Thm 12.4).  Rows of hugely different |A||x|+|b| make that impossible in single
           precision for perfectly conditioned matrices; the tight claim is asserted only when this second premise
           holds too, and the unrefined LU bound of C01 is asserted in every case. */
        int skeel_ok = 0; ld sigma = 0;
        {
            int colequ_ = (equed == COL || equed == BOTH), rowequ_ = (equed == ROW || equed == BOTH);
            const elem_t *bs = S->b + (size_t)cidx * S->ldb;
            elem_t *xe = xmalloc((n + 1) * sizeof(elem_t));
            ref_t *xq = xmalloc((n + 1) * sizeof(ref_t)), *yq = xmalloc((n + 1) * sizeof(ref_t));
            ld *aq = xmalloc((n + 1) * sizeof(ld));
            for (int_t i = 0; i < n; ++i) {
                ld wgt = 1.0L;
                if (notran_eff && colequ_) wgt = 1.0L / (ld)S->C[i];
                else if (!notran_eff && rowequ_) wgt = 1.0L / (ld)S->R[i];
                xq[i] = xr[i] * wgt; xe[i] = R2E(xq[i]);
            }
            op_apply(Geq, n, op, xq, yq, aq);
            ld dmax = 0, dmin = 1e4900L;
            for (int_t i = 0; i < n; ++i) { ld dd = aq[i] + rabs1(E2R(bs[i])); if (dd > dmax) dmax = dd; if (dd < dmin) dmin = dd; }
            sigma = dmin > 0 ? dmax / dmin : 1e4900L;
            if (!sing) {
                /* cond(A^-1) = || |op(A)| |op(A)^-1| ||_inf for the equilibrated matrix */
                ld ccw = 0;
                for (int_t i = 0; i < n; ++i) {
                    ld rs_ = 0;
                    for (int_t j = 0; j < n; ++j) {
                        ld t = 0;
                        for (int_t k = 0; k < n; ++k) {
                            /* op(G)(i,k) * op(G)^-1(k,j): op(G)^-1 = op(Ginv) */
                            ld a = (op == 0 || op == 3) ? rabs(Geq[(size_t)k * n + i]) : rabs(Geq[(size_t)i * n + k]);
                            ld b2 = (op == 0 || op == 3) ? rabs(Ginv[(size_t)j * n + k]) : rabs(Ginv[(size_t)k * n + j]);
                            t += a * b2;
                        }
                        rs_ += t;
                    }
                    if (rs_ > ccw) ccw = rs_;
                }
                skeel_ok = (ccw * sigma * (ld)(n + 1) * uw <= 0.1L);
                if (first && cidx == 0) { jo_dbl("sigma", (double)(sigma > 1e300L ? 1e300L : sigma)); jo_dbl("cond_cw", (double)ccw); }
            }
            if (have_lu && W && !sing) {
                snprintf(key, sizeof key, "C07|unrefined-bound%s", tag);
                check_residual(Geq, n, op, xe, n, bs, n, 1, W, perm_r, perm_c, 8.0L * gam(3.0L * n), key);
            }
            free(xe); free(xq); free(yq); free(aq);
        }
        if (premised && skeel_ok) ++n_tight;
        /* C07 (and the tight berr claim of C13): backward error of order (n+1)u under the premises */
        if (premised && skeel_ok && omega > 4.0L * (n + 1) * UBOUND) {
            snprintf(key, sizeof key, "C07|backward-error%s", tag);
            jo_fail(key, "rhs %ld: componentwise backward error %.3Le of the returned X exceeds 4(n+1)u = %.3Le (kappa %.2Le growth %.2Le)", (long)cidx, omega, 4.0L * (n + 1) * UBOUND, kappa, growth);
        }
        /* C13: forward error bound (times the LAPACK test slack 40) dominates the true error */
        if (!sing && kappa * uw < 0.1L && u_thresh >= 0.1) {
            ref_t *xt = xmalloc((n + 1) * sizeof(ref_t)), *rr = xmalloc((n + 1) * sizeof(ref_t));
            ref_t *Mop = xmalloc((size_t)n * n * sizeof(ref_t) + 16);
            /* reference: exact solution of the EQUILIBRATED system op(A_eq) y = b_eq (well scaled, so the
               extended-precision solve is accurate); the returned X is compared as y = inv(C) X resp. inv(R) X.
               The bound is computed for that system (refinement runs there and the driver does not rescale
               ferr as LAPACK's xGESVX does). */
            const elem_t *bs = S->b + (size_t)cidx * S->ldb;      /* B as scaled in place by this call */
            for (int_t j = 0; j < n; ++j) for (int_t i = 0; i < n; ++i) {
                ref_t g = Geq[(size_t)j * n + i];
                if (op == 2 || op == 3) g = conjl(g);
                if (op == 0 || op == 3) Mop[(size_t)j * n + i] = g; else Mop[(size_t)i * n + j] = g;
            }
            for (int_t i = 0; i < n; ++i) xt[i] = E2R(bs[i]);
            if (!ref_solve(Mop, n, xt, 1)) {
                for (int it = 0; it < 2; ++it) {
                    for (int_t i = 0; i < n; ++i) { ref_t s2 = E2R(bs[i]); for (int_t j = 0; j < n; ++j) s2 -= Mop[(size_t)j * n + i] * xt[j]; rr[i] = s2; }
                    if (!ref_solve(Mop, n, rr, 1)) for (int_t i = 0; i < n; ++i) xt[i] += rr[i];
                }
                ld en = 0, xn = 0;
                int colequ_ = (equed == COL || equed == BOTH), rowequ_ = (equed == ROW || equed == BOTH);
                for (int_t i = 0; i < n; ++i) {
                    ld wgt = 1.0L;
                    if (notran_eff && colequ_) wgt = 1.0L / (ld)S->C[i];
                    else if (!notran_eff && rowequ_) wgt = 1.0L / (ld)S->R[i];
                    ld e = rabs(xr[i] * wgt - xt[i]); if (e > en) en = e;
                    if (rabs(xr[i]) * wgt > xn) xn = rabs(xr[i]) * wgt;
                }
                ld ferr = (ld)S->ferr[cidx];
                ld refacc = kappa * 5.5e-20L * n * 4;      /* accuracy of the reference itself */
                ld actual = xn > 0 ? en / xn : 0;
                ld ratio = (actual - refacc) / (40.0L * ferr + 1e-300L);
                if (ratio > maxferr_ratio) maxferr_ratio = ratio;
                /* (no absolute slack beyond the accuracy of the reference: a bound of 0 for an X that is not exact is a violation,
                   as in LAPACK's own test of xGERFS) */
                if (actual > 40.0L * ferr + refacc + 1e-3L * UROUND) {
                    snprintf(key, sizeof key, "C13|ferr-not-dominating%s", tag);
                    jo_fail(key, "rhs %ld: relative error %.3Le of X (in the equilibrated system) exceeds 40 * ferr = %.3Le (kappa %.2Le)", (long)cidx, actual, 40.0L * ferr, kappa);
                }
            }
            free(xt); free(rr); free(Mop);
        }
    }
    if (first) jo_int("tight_judged", n_tight);
    if (first) { jo_dbl("omega", (double)maxomega); jo_dbl("berr_diff", (double)worst_berr_diff); jo_dbl("ferr_ratio", (double)maxferr_ratio); }

    /* ---- C12: rcond, info = n+1, pivot growth (first call: the factorization belongs to it) ---- */
    char kb[96];
    if (!sing) {
        ld eps = (ld)LAMCH("E");
        if ((rcond_drv < (double)eps) != (info == n + 1))
            jo_fail(tagged(kb, sizeof kb, "C12|info-vs-rcond", tag), "rcond = %.3e, eps = %.3Le but info = %ld (n = %ld)", rcond_drv, eps, (long)info, (long)n);
        /* the estimator starts from e/n and iterates with inv(G) (1-norm) or inv(G)^H (inf-norm) */
        ld s_en = 0;
        if (use1) { for (int_t i = 0; i < n; ++i) { ref_t s = 0; for (int_t j = 0; j < n; ++j) s += Ginv[(size_t)j * n + i]; s_en += rabs(s) / n; } }
        else { for (int_t j = 0; j < n; ++j) { ref_t s = 0; for (int_t i = 0; i < n; ++i) s += conjl(Ginv[(size_t)j * n + i]); s_en += rabs(s) / n; } }
        ld lo = 1.0L / kappa, hi = (anorm * s_en > 0) ? 1.0L / (anorm * s_en) : 1e300L;
        ld delta = 8.0L * n * UBOUND * kappa * (growth > 1 ? growth : 1);
        if (delta > 0.5L) delta = 0.5L;
        if (first) { jo_dbl("rcond", rcond_drv); jo_dbl("rcond_true", (double)lo); jo_dbl("rcond_hi", (double)hi); }
        if (kappa * n * uw <= 1e-3L && u_thresh >= 0.1) {
            /* weaker upper bound that even a non-monotone last step of the estimator respects: the estimate is
               ||inv e/n||, some column norm of the inverse (resp. its transpose), or the alternating-sign test value */
            ld mincol = 1e300L;
            for (int_t j = 0; j < n; ++j) {
                ld sc = 0;
                if (use1) for (int_t i = 0; i < n; ++i) sc += rabs(Ginv[(size_t)j * n + i]);
                else for (int_t i = 0; i < n; ++i) sc += rabs(Ginv[(size_t)i * n + j]);
                if (sc < mincol) mincol = sc;
            }
            ld hi2 = 1.0L / (anorm * (mincol < s_en ? mincol : s_en));
            if ((ld)rcond_drv < lo * (1.0L - delta) * (1.0L - 64 * UROUND))
                jo_fail(tagged(kb, sizeof kb, "C12|rcond-below-lower-bound", tag), "rcond = %.6e below 1/kappa = %.6Le (delta %.2Le, kappa %.3Le, norm %s)", rcond_drv, lo, delta, kappa, use1 ? "1" : "inf");
            else if ((ld)rcond_drv > hi2 * (1.0L + delta) * (1.0L + 64 * UROUND))
                jo_fail(tagged(kb, sizeof kb, "C12|rcond-above-any-estimate", tag), "rcond = %.6e exceeds even 1/(||A|| min(||inv e/n||, min_j ||inv e_j||)) = %.6Le (kappa %.3Le, norm %s)", rcond_drv, hi2, kappa, use1 ? "1" : "inf");
            else if ((ld)rcond_drv > hi * (1.0L + delta) * (1.0L + 64 * UROUND))
                jo_fail(tagged(kb, sizeof kb, "C12|rcond-above-e/n-bound", tag), "rcond = %.6e exceeds 1/(||A||*||inv(A) e/n||) = %.6Le (delta %.2Le, kappa %.3Le, norm %s, n=%ld)", rcond_drv, hi, delta, kappa, use1 ? "1" : "inf", (long)n);
            if (first) jo_int("rcond_judged", 1);
        }
        if (have_lu) {
            /* reciprocal pivot growth from the returned factors and the (equilibrated) matrix */
            ld rpg_ref = 1.0L / (ld)LAMCH("S");
            for (int_t j = 0; j < n; ++j) {      /* column j of G sits at position perm_c[j] of the factors */
                ld ma = 0, mu = 0;
                for (int_t i = 0; i < n; ++i) { ld a = rabs1(Geq[(size_t)j * n + i]); if (a > ma) ma = a; }
                int_t pj = perm_c[j];
                for (int_t i = 0; i <= pj; ++i) { ld a = rabs1(d.U[(size_t)pj * n + i]); if (a > mu) mu = a; }
                ld q = (mu == 0) ? 1.0L : ma / mu;
                if (q < rpg_ref) rpg_ref = q;
            }
            if (first) jo_dbl("rpg", rpg_drv);
            if (fabsl((ld)rpg_drv - rpg_ref) > 8.0L * UROUND * rpg_ref)
                jo_fail(tagged(kb, sizeof kb, "C12|pivot-growth", tag), "recip_pivot_growth = %.9e but min_j max|A_ij|/max|U_ij| recomputed from the factors is %.9Le", rpg_drv, rpg_ref);
        }
    }
    if (have_lu) { lud_free(&d); free(W); }
    free(Geq); free(Ginv); free(xr); free(y); free(ay);
}

/* exact comparison of one scaled entry: got == fl(s * v) (component-wise for complex) */
static int scaled_equal(elem_t got, elem_t v, real_t s)
{
#if IS_COMPLEX
    real_t a = (real_t)(v.r * s), b = (real_t)(v.i * s);
    return got.r == a && got.i == b;
#else
    return got == (real_t)(v * s);
#endif
}

int cmd_gssvx(const case_t *c)
{
    rng_t rng = { (uint64_t)cint(c, "seed", 1) * 2654435761ULL + 4242 };
    sys_t S; memset(&S, 0, sizeof S);
    hx_ienv_from_case(c);
    if (gen_matrix(c, &rng, &S.G)) { jo_begin(c); jo_str("error", "gen_matrix"); jo_end(); return 2; }
    int_t n = S.n = S.G.n;
    int nprocs = (int)cint(c, "np", 1);
    int ord = (int)cint(c, "ord", 0);
    S.nr = !strcmp(cstr(c, "stype", "nc"), "nr");
    int_t nrhs = S.nrhs = cint(c, "nrhs", 1);
    S.ldb = n + cint(c, "ldpad", 0); if (S.ldb < 1) S.ldb = 1;
    S.ldx = n + cint(c, "ldxpad", 0); if (S.ldx < 1) S.ldx = 1;
    int trans = (int)cint(c, "trans", 0);
    int equil = (int)cint(c, "equil", 1);
    int factored = (int)cint(c, "factored", 0);      /* second call with fact = FACTORED */
    int trans2 = (int)cint(c, "trans2", trans);
    double u = cdbl(c, "u", 1.0);
    int expect_sing = (int)cint(c, "expect_singular", 0);
    S.G0 = csc_clone(&S.G);
    S.Gd0 = csc_dense(&S.G0);

    size_t nb = (size_t)S.ldb * (nrhs > 0 ? nrhs : 1) + 1, nx = (size_t)S.ldx * (nrhs > 0 ? nrhs : 1) + 1;
    S.b = xmalloc(nb * sizeof(elem_t)); S.b0 = xmalloc(nb * sizeof(elem_t)); S.x = xmalloc(nx * sizeof(elem_t));
    gen_rhs(&rng, n, nrhs, S.ldb, S.b, cstr(c, "rhs", "generic"));
    if (!strcmp(cstr(c, "rhs", "generic"), "xsparse")) {
        /* B = op(A) * Xt for an integer Xt with many exactly zero components (exact in every precision for the
           integer matrices this is used with) */
        int op0 = opcode(S.nr, (int)cint(c, "trans", 0));
        ref_t *xt = xmalloc((n + 1) * sizeof(ref_t)), *yt = xmalloc((n + 1) * sizeof(ref_t));
        for (int_t j = 0; j < nrhs; ++j) {
            for (int_t i = 0; i < n; ++i) {
                long v = rng_int(&rng, 5) < 2 ? 0 : (long)rng_int(&rng, 7) - 3;
#if IS_COMPLEX
                long w = rng_int(&rng, 5) < 3 ? 0 : (long)rng_int(&rng, 5) - 2;
                xt[i] = (ld)v + (ld)(v == 0 ? 0 : w) * CI;
#else
                xt[i] = (ld)v;
#endif
            }
            op_apply(S.Gd0, n, op0, xt, yt, NULL);
            for (int_t i = 0; i < n; ++i) S.b[(size_t)j * S.ldb + i] = R2E(yt[i]);
        }
        free(xt); free(yt);
    }
    {   /* per-column patterns of B: 'z' an all-zero column, 't' a tiny column (scaled by 2^-44), 'g' as generated */
        const char *cp = cstr(c, "colpat", ""); size_t lp = strlen(cp);
        for (int_t j = 0; j < nrhs && lp; ++j) {
            char ch = cp[(size_t)j % lp];
            for (int_t i = 0; i < n; ++i) {
                elem_t *e = &S.b[(size_t)j * S.ldb + i];
                if (ch == 'z') *e = MKE(0, 0);
                else if (ch == 't') { ref_t v = E2R(*e) * 5.6843418860808015e-14L; *e = R2E(v); }
            }
        }
    }
    memcpy(S.b0, S.b, (size_t)S.ldb * nrhs * sizeof(elem_t));
    for (size_t i = 0; i < nx; ++i) S.x[i] = MKE(XSENT_RE, XSENT_IM);
    S.R = xmalloc((n + 1) * sizeof(real_t)); S.C = xmalloc((n + 1) * sizeof(real_t));
    S.ferr = xmalloc((nrhs + 1) * sizeof(real_t)); S.berr = xmalloc((nrhs + 1) * sizeof(real_t));
    for (int_t i = 0; i <= n; ++i) { S.R[i] = (real_t)-7.0; S.C[i] = (real_t)-7.0; }
    for (int_t i = 0; i <= nrhs; ++i) { S.ferr[i] = (real_t)-3.0; S.berr[i] = (real_t)-3.0; }

    SuperMatrix A, L, U, B, X;
    memset(&L, 0, sizeof L); memset(&U, 0, sizeof U);
    CREATE_COMPCOL(&A, S.G.m, S.G.n, S.G.nnz, S.G.val, S.G.rowind, S.G.colptr, S.nr ? SLU_NR : SLU_NC, SLU_DT, SLU_GE);
    CREATE_DENSE(&B, n, nrhs, S.b, S.ldb, SLU_DN, SLU_DT, SLU_GE);
    CREATE_DENSE(&X, n, nrhs, S.x, S.ldx, SLU_DN, SLU_DT, SLU_GE);
    int_t *perm_c = xmalloc((n + 1) * sizeof(int_t)), *perm_r = xmalloc((n + 1) * sizeof(int_t));
    if (ord >= 0) get_perm_c(ord, &A, perm_c); else for (int_t j = 0; j < n; ++j) perm_c[j] = j;

    superlumt_options_t opt; memset(&opt, 0, sizeof opt);
    opt.nprocs = nprocs; opt.fact = equil ? EQUILIBRATE : DOFACT; opt.trans = (trans_t)trans; opt.refact = NO;
    opt.panel_size = hx_ienv[1]; opt.relax = hx_ienv[2]; opt.diag_pivot_thresh = u; opt.usepr = NO; opt.drop_tol = 0.0;
    opt.SymmetricMode = cint(c, "symm", 0) ? YES : NO; opt.PrintStat = NO;
    opt.perm_c = perm_c; opt.perm_r = perm_r; opt.work = NULL; opt.lwork = 0;
    int lwq = (int)cint(c, "lwq", 0);        /* workspace query through the driver: returns before the factorization, after the equilibration */
    if (lwq) opt.lwork = -1;
    opt.etree = intMalloc(n > 0 ? n : 1); opt.colcnt_h = intMalloc(n > 0 ? n : 1); opt.part_super_h = intMalloc(n > 0 ? n : 1);
    equed_t equed = NOEQUIL;
    if (!equil) {
        /* outputs are poisoned before the call: with fact = DOFACT the driver must report NOEQUIL whatever the variable held,
           and must not use R/C (a later FACTORED call is fed whatever comes back) */
        equed = (equed_t)(1 + cint(c, "seed", 1) % 3);
        for (int_t i = 0; i < n; ++i) { S.R[i] = (real_t)(1e-3 * (1 + i % 5)); S.C[i] = (real_t)(3e2 * (1 + i % 3)); }
    }
    real_t rpg = (real_t)-1, rcond = (real_t)-1;
    superlu_memusage_t mem; memset(&mem, 0, sizeof mem);
    int_t info = -999;

    mon_reset();
    mon_enable(1, (uint64_t)cint(c, "pert", 0), (int)cint(c, "pmode", 0), (int)cint(c, "plevel", 1), nprocs);
    int tasks0 = count_tasks();
    double t0 = now_s();
    GSSVX(nprocs, &opt, &A, perm_c, perm_r, &equed, S.R, S.C, &L, &U, &B, &X, &rpg, &rcond, S.ferr, S.berr, &mem, &info);
    double t1 = now_s();
    int tasks1 = HX_TSAN ? count_tasks() : count_tasks_settled(tasks0);
    if (HX_TSAN && tasks1 == tasks0 + 1) tasks1 = tasks0;
    mon_disable();

    jo_begin(c);
    jo_int("n", n); jo_int("nnz", S.G.nnz); jo_int("np", nprocs); jo_int("info", info); jo_int("nrhs", nrhs);
    jo_int("equed", (int)equed); jo_int("trans", trans); jo_int("nr", S.nr); jo_dbl("secs", t1 - t0);
    if (info == n + 1) { jo_int("info_np1", 1); if (nrhs == 0) jo_int("info_np1_nrhs0", 1); }
    if (tasks1 != tasks0) jo_fail("C04|threads-left", "thread count %d before and %d after the driver call", tasks0, tasks1);
    ev_t *ev = NULL; size_t nev = mon_collect(&ev);
    {   evstats_t st; memset(&st, 0, sizeof st);
        if (info >= 0 && info <= n + 1 && n > 0) {
            mon_analyze(ev, nev, n, NULL, NULL, nprocs, &st);
            jo_int("pipe_takes", st.pipelined_takes); jo_int("thr_panels", st.threads_with_panels);
        }
    }
    free(ev);

    int rowequ = (equed == ROW || equed == BOTH), colequ = (equed == COL || equed == BOTH);
    int notran_eff = S.nr ? (trans != 0) : (trans == 0);
    int sol = (info == 0 || info == n + 1);

    /* ---- C11 (driver part): A_out and B_out are scaled exactly as equed, R, C say - on every kind of return (solution,
       singular, workspace query) ---- */
    if ((info >= 0 && info <= n + 1) || (lwq && info > n + 1)) {
        if ((int)equed < 0 || (int)equed > 3) jo_fail("C11|equed-range", "equed = %d", (int)equed);
        if (!equil && equed != NOEQUIL) jo_fail("C11|equed-without-equilibrate", "fact = DOFACT but equed = %d", (int)equed);
        long badA = 0;
        if (memcmp(S.G.colptr, S.G0.colptr, (n + 1) * sizeof(int_t)) || memcmp(S.G.rowind, S.G0.rowind, S.G.nnz * sizeof(int_t)))
            jo_fail("C07|A-structure-changed", "the index arrays of A were modified");
        for (int_t j = 0; j < n && !badA; ++j) for (int_t k = S.G.colptr[j]; k < S.G.colptr[j + 1]; ++k) {
            int_t i = S.G.rowind[k];
            elem_t got = S.G.val[k], v0 = S.G0.val[k];
            if (equed == NOEQUIL) { if (memcmp(&got, &v0, sizeof got)) { badA = 1; jo_fail("C11|A-changed-without-flag", "equed = NOEQUIL but A(%ld,%ld) changed", (long)i, (long)j); break; } }
            else {
                /* within 2 ulp of R_i * A_ij * C_j (the routine may form cj*r[i] first) */
                ld s = (rowequ ? (ld)S.R[i] : 1.0L) * (colequ ? (ld)S.C[j] : 1.0L);
                ref_t want = E2R(v0) * s;
                ld err = rabs(E2R(got) - want);
                if (err > 3.0L * UROUND * rabs(want)) { badA = 1; jo_fail("C11|A-scaling-mismatch", "equed=%d: A(%ld,%ld) = %.9Le, expected R*A*C = %.9Le", (int)equed, (long)i, (long)j, rabs(E2R(got)), rabs(want)); break; }
            }
        }
        /* B: scaled by R (effective notrans & row) or C (effective trans & col), one rounding per component */
        int scaleB = notran_eff ? rowequ : colequ;
        const real_t *sv = notran_eff ? S.R : S.C;
        for (int_t cc = 0; cc < nrhs; ++cc) for (int_t i = 0; i < S.ldb; ++i) {
            elem_t got = S.b[(size_t)cc * S.ldb + i], v0 = S.b0[(size_t)cc * S.ldb + i];
            int ok = (i >= n || !scaleB) ? !memcmp(&got, &v0, sizeof got) : scaled_equal(got, v0, sv[i]);
            if (!ok) { jo_fail(i >= n ? "C07|B-padding-written" : (scaleB ? "C11|B-scaling-mismatch" : "C11|B-changed-without-flag"),
                               "B(%ld,%ld) on return does not equal the input %s", (long)i, (long)cc, scaleB ? "scaled by the reported factor" : "(no scaling was reported for B)"); cc = nrhs; break; }
        }
        if (rowequ) for (int_t i = 0; i < n; ++i) if (!(S.R[i] > 0) || !isfinite((double)S.R[i])) { jo_fail("C11|scale-factor-range", "R[%ld] = %g", (long)i, (double)S.R[i]); break; }
        if (colequ) for (int_t i = 0; i < n; ++i) if (!(S.C[i] > 0) || !isfinite((double)S.C[i])) { jo_fail("C11|scale-factor-range", "C[%ld] = %g", (long)i, (double)S.C[i]); break; }
    }

    if (sol) {
        if (expect_sing == 1) jo_fail("C06|singular-not-reported", "exactly singular matrix but info = %ld", (long)info);
        for (int_t cc = 0; cc < nrhs; ++cc) for (int_t i = n; i < S.ldx; ++i)
            if (!is_sentinel(S.x[(size_t)cc * S.ldx + i])) { jo_fail("C07|X-padding-written", "padding rows of X (ldx > n) were overwritten"); cc = nrhs; break; }
        if (expect_sing != 2)
            judge_solution(c, &S, trans, equed, &L, &U, perm_r, perm_c, (double)rcond, (double)rpg, info, 1, S.b0, "", u);
        /* ---- second call: FACTORED ---- */
        if (factored && nrhs > 0 && expect_sing != 2) {
            uint64_t hA = csc_hash(&S.G), hpr = fnv(perm_r, n * sizeof(int_t), FNV0), hpc = fnv(perm_c, n * sizeof(int_t), FNV0);
            const SCPformat *Ls = L.Store; const NCPformat *Us = U.Store;
            long long lmx = 0; for (int_t j = 0; j < n; ++j) if (Ls->nzval_colend[j] > lmx) lmx = Ls->nzval_colend[j];
            uint64_t hL = fnv(Ls->nzval, (size_t)lmx * sizeof(elem_t), FNV0);
            uint64_t hU = 0; { long long mx = 0; for (int_t j = 0; j < n; ++j) if (Us->colend[j] > mx) mx = Us->colend[j];
                               hU = fnv(Us->nzval, (size_t)mx * sizeof(elem_t), FNV0); hU = fnv(Us->rowind, (size_t)mx * sizeof(int_t), hU); }
            elem_t *b2 = xmalloc(nb * sizeof(elem_t));
            gen_rhs(&rng, n, nrhs, S.ldb, S.b, "generic");
            memcpy(b2, S.b, (size_t)S.ldb * nrhs * sizeof(elem_t));
            for (size_t i = 0; i < nx; ++i) S.x[i] = MKE(XSENT_RE, XSENT_IM);
            opt.fact = FACTORED; opt.trans = (trans_t)trans2;
            equed_t eq2 = equed; real_t rpg2 = (real_t)-1, rc2 = (real_t)-1; int_t info2 = -999;
            GSSVX(nprocs, &opt, &A, perm_c, perm_r, &eq2, S.R, S.C, &L, &U, &B, &X, &rpg2, &rc2, S.ferr, S.berr, &mem, &info2);
            jo_int("info2", info2); jo_int("trans2", trans2);
            if (!(info2 == 0 || info2 == n + 1)) jo_fail("C07|factored-info", "fact = FACTORED returned info = %ld", (long)info2);
            else {
                if (eq2 != equed) jo_fail("C08|factored-modified-equed", "equed changed from %d to %d", (int)equed, (int)eq2);
                if (csc_hash(&S.G) != hA) jo_fail("C08|factored-modified-A", "a call with fact = FACTORED modified A");
                if (fnv(perm_r, n * sizeof(int_t), FNV0) != hpr || fnv(perm_c, n * sizeof(int_t), FNV0) != hpc) jo_fail("C08|factored-modified-perm", "a call with fact = FACTORED modified perm_r / perm_c");
                uint64_t hL2 = fnv(Ls->nzval, (size_t)lmx * sizeof(elem_t), FNV0);
                long long mx = 0; for (int_t j = 0; j < n; ++j) if (Us->colend[j] > mx) mx = Us->colend[j];
                uint64_t hU2 = fnv(Us->nzval, (size_t)mx * sizeof(elem_t), FNV0); hU2 = fnv(Us->rowind, (size_t)mx * sizeof(int_t), hU2);
                if (hL2 != hL || hU2 != hU) jo_fail("C08|factored-modified-LU", "a call with fact = FACTORED modified the stored factors");
                /* the right-hand side of this call belongs to the original system: B2 is what the user passed;
                   with equilibration the driver scales it in place, X is mapped back */
                int notran2 = S.nr ? (trans2 != 0) : (trans2 == 0);
                int scaleB2 = notran2 ? rowequ : colequ;
                const real_t *sv2 = notran2 ? S.R : S.C;
                for (int_t cc = 0; cc < nrhs; ++cc) for (int_t i = 0; i < n; ++i) {
                    elem_t got = S.b[(size_t)cc * S.ldb + i], v0 = b2[(size_t)cc * S.ldb + i];
                    int ok = scaleB2 ? scaled_equal(got, v0, sv2[i]) : !memcmp(&got, &v0, sizeof got);
                    if (!ok) { jo_fail("C11|B-scaling-mismatch|factored", "FACTORED call: B(%ld,%ld) on return is not the input %s", (long)i, (long)cc, scaleB2 ? "times the scale factor" : "unchanged"); cc = nrhs; break; }
                }
                /* A0 for this call: the pristine matrix (A is still the equilibrated one the factors belong to) */
                judge_solution(c, &S, trans2, equed, &L, &U, perm_r, perm_c, (double)rc2, (double)rpg2, info2, 0, b2, "|factored", u);
            }
            free(b2);
            (void)hL;
        }
    } else if (info > 0 && info <= n) {
        /* ---- C06: singular ---- */
        if (!expect_sing) {
            /* an exact zero pivot can be produced by rounding when the (equilibrated) matrix is singular to working
               precision: the claim "info in {0, n+1}" is asserted only for kappa_1 * n * u <= 0.01 */
            ref_t *Gq = csc_dense(&S.G), *Gi = xmalloc((size_t)n * n * sizeof(ref_t) + 16);
            int sg = ref_inverse(Gq, n, Gi);
            ld kap = sg ? 1e4900L : norm1_dense(Gq, n) * norm1_dense(Gi, n);
            free(Gq); free(Gi);
            if (kap * (ld)n * UROUND <= 0.01L)
                jo_fail("C07|info-nonzero", "expert driver returned info = %ld for a nonsingular matrix (kappa_1 = %.3Le)", (long)info, kap);
            else jo_int("info_undecided_illcond", 1);
        }
        for (size_t i = 0; i < (size_t)S.ldx * nrhs; ++i) if (!is_sentinel(S.x[i])) { jo_fail("C06|X-written", "info = %ld but X was written", (long)info); break; }
        long want = struct_rank_prefix(&S.G0, perm_c);
        jo_int("first_deficient", want);
        if (cint(c, "zerocols", 0) > 0 && gen_nzerocols > 0) {
            want = n + 1; for (int q = 0; q < gen_nzerocols; ++q) if (perm_c[gen_zerocols[q]] + 1 < want) want = perm_c[gen_zerocols[q]] + 1;
            if (want != info) jo_fail("C06|wrong-index", "info = %ld but the first of the %d all-zero columns sits at position %ld of A*Pc", (long)info, gen_nzerocols, want);
        } else if (cint(c, "zerocol", -1) >= 0) {
            want = perm_c[cint(c, "zerocol", 0)] + 1;
            if (want != info) jo_fail("C06|wrong-index", "info = %ld but the all-zero column sits at position %ld of A*Pc", (long)info, want);
        } else if (cint(c, "onesblock", 0)) {
            want = ones_expected_info(perm_c);
            if (want != info) jo_fail("C06|wrong-index", "info = %ld but exact cancellation first occurs at column %ld of A*Pc", (long)info, want);
        } else if (cint(c, "generic_singular", 0) && want != info) jo_fail("C06|wrong-index", "info = %ld but the first structurally deficient column prefix is %ld", (long)info, want);
        if (!is_perm(perm_c, n)) jo_fail("C06|perm_c-not-bijection", "perm_c is not a permutation");
        walk_LU(&L, &U, n, "C06|factors");
    } else if (lwq && info > n + 1) {
        jo_int("query", 1);
        for (size_t i = 0; i < (size_t)S.ldx * nrhs; ++i) if (!is_sentinel(S.x[i])) { jo_fail("C14|query-wrote-X", "workspace query but X was written"); break; }
    } else {
        jo_fail("C07|info-range", "expert driver returned info = %ld (n = %ld)", (long)info, (long)n);
    }
    jo_end();

    if (info >= 0 && info <= n + 1) { Destroy_SuperNode_SCP(&L); Destroy_CompCol_NCP(&U); }
    SUPERLU_FREE(opt.etree); SUPERLU_FREE(opt.colcnt_h); SUPERLU_FREE(opt.part_super_h);
    Destroy_SuperMatrix_Store(&A); Destroy_SuperMatrix_Store(&B); Destroy_SuperMatrix_Store(&X);
    free(perm_c); free(perm_r); free(S.b); free(S.b0); free(S.x); free(S.R); free(S.C); free(S.ferr); free(S.berr);
    free(S.Gd0); csc_free(&S.G); csc_free(&S.G0);
    return 0;
}
