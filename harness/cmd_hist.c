/* hist: call histories on one sparsity pattern (C08 C14 C17 C18)
 *
 *   ops=F,R1,S0,R0,S1,D,F,...      F first factorization, Ru refactor (u=1: reuse row pivots),
 *                                  St solve with existing factors (trans t), D destroy factors,
 *                                  Q workspace query (lwork=-1), X singular first factorization + destroy
 *   mem=0|1                        internal allocation / caller-supplied workspace
 *   lwfrac=<f>                     user workspace = f * (size estimate of the query)   (mem=1)
 *   lwbytes=<k>                    explicit user workspace size
 *   failat=<k>                     (asan_um build) allocation request k and all later ones fail
 *   reps=<r>                       repeat the whole op list r times (leak growth)
 */
#include "hx.h"
#include "mon_alloc.h"

typedef struct {
    int_t n; csc_t G; ref_t *Gd;
    SuperMatrix A, AC, L, U;
    int have_ac, have_lu, have_opt;
    superlumt_options_t opt; Gstat_t Gstat;
    int_t *perm_c, *perm_r, *perm_r_prev;
    ld *W;
    void *work; long lwork;
    double u;
    int valgen;
    elem_t *base;      /* values of the first factorization: every new generation is drawn from these */
} hs_t;

static uint64_t lu_digest(hs_t *H, uint64_t h)
{
    int_t n = H->n;
    const SCPformat *Ls = H->L.Store; const NCPformat *Us = H->U.Store;
    h = fnv(&Ls->nnz, sizeof Ls->nnz, h); h = fnv(&Ls->nsuper, sizeof Ls->nsuper, h); h = fnv(&Us->nnz, sizeof Us->nnz, h);
    h = fnv(Ls->col_to_sup, n * sizeof(int_t), h);
    for (long s = 0; s <= Ls->nsuper; ++s) {
        long fs = Ls->sup_to_colbeg[s], fe = Ls->sup_to_colend[s];
        h = fnv(&fs, sizeof fs, h); h = fnv(&fe, sizeof fe, h);
        long long rb = Ls->rowind_colbeg[fs], re = Ls->rowind_colend[fs];
        h = fnv(Ls->rowind + rb, (size_t)(re - rb) * sizeof(int_t), h);
        for (long j = fs; j < fe; ++j) h = fnv((elem_t *)Ls->nzval + Ls->nzval_colbeg[j], (size_t)(Ls->nzval_colend[j] - Ls->nzval_colbeg[j]) * sizeof(elem_t), h);
    }
    for (int_t j = 0; j < n; ++j) {
        long long b = Us->colbeg[j], e = Us->colend[j];
        h = fnv(Us->rowind + b, (size_t)(e - b) * sizeof(int_t), h);
        h = fnv((elem_t *)Us->nzval + b, (size_t)(e - b) * sizeof(elem_t), h);
    }
    h = fnv(H->perm_r, n * sizeof(int_t), h); h = fnv(H->perm_c, n * sizeof(int_t), h);
    return h;
}

/* new values on the same pattern: generation k */
static void new_values(hs_t *H, uint64_t seed, int k, int keep_pivots, int zero_pivots)
{
    rng_t r = { seed * 7919ULL + (uint64_t)k * 104729ULL + 13 };
    /* keep_pivots: a small perturbation of the CURRENT values; otherwise fresh factors applied to the base values
       (no drift towards under/overflow over long histories) */
    if (!keep_pivots) memcpy(H->G.val, H->base, H->G.nnz * sizeof(elem_t));
    for (int_t j = 0; j < H->n; ++j) for (int_t q = H->G.colptr[j]; q < H->G.colptr[j + 1]; ++q) {
        double f;
        if (keep_pivots) f = 1.0 + 0.002 * rng_sym(&r);                /* old pivots stay valid (with u <= 0.5) */
        else f = ldexp(1.0 + rng_u01(&r), (int)rng_int(&r, 13) - 6);  /* factors 1/64..128: re-ranks column maxima */
        if (rng_u01(&r) < 0.5 && !keep_pivots) f = -f;
#if IS_COMPLEX
        H->G.val[q].r = (real_t)(H->G.val[q].r * f); H->G.val[q].i = (real_t)(H->G.val[q].i * f);
#else
        H->G.val[q] = (real_t)(H->G.val[q] * f);
#endif
    }
    if (zero_pivots > 0 && H->have_lu) {
        /* put exact zeros at some old pivot positions (entry (i,j) with perm_r[i] == perm_c[j]), keeping the column non-empty */
        for (int t = 0; t < zero_pivots; ++t) {
            int_t j = (int_t)rng_int(&r, H->n);
            if (H->G.colptr[j + 1] - H->G.colptr[j] < 2) continue;
            for (int_t q = H->G.colptr[j]; q < H->G.colptr[j + 1]; ++q)
                if (H->perm_r[H->G.rowind[q]] == H->perm_c[j]) { H->G.val[q] = MKE(0, 0); break; }
        }
    }
    free(H->Gd); H->Gd = csc_dense(&H->G);
}

/* extended-precision replay of the elimination with a given row order: 1 all old pivots pass the
   threshold with margin, -1 some pivot clearly fails, 0 undecidable */
static int replay_pivots(const ref_t *Gd, int_t n, const int_t *perm_r, const int_t *perm_c, ld u)
{
    ref_t *M = xcalloc((size_t)n * n + 1, sizeof(ref_t));
    for (int_t j = 0; j < n; ++j) for (int_t i = 0; i < n; ++i) M[(size_t)perm_c[j] * n + perm_r[i]] = Gd[(size_t)j * n + i];
    int verdict = 1;
    /* largest magnitude each column has had: candidates that are tiny relative to it are cancellation residue (exactly
       zero in exact arithmetic, rounding noise in the library's working precision): nothing can be decided from them */
    ld *cscale = xcalloc(n + 1, sizeof(ld));
    for (int_t j = 0; j < n; ++j) for (int_t i = 0; i < n; ++i) { ld a = rabs1(M[(size_t)j * n + i]); if (a > cscale[j]) cscale[j] = a; }
    for (int_t k = 0; k < n; ++k) {
        ld mx = 0;
        for (int_t i = k; i < n; ++i) { ld a = rabs1(M[(size_t)k * n + i]); if (a > mx) mx = a; }
        ld pv = rabs1(M[(size_t)k * n + k]);
        if (mx <= 1e-5L * cscale[k]) { verdict = 0; break; }
        if (u == 0 && pv <= 1e-10L * mx) { verdict = 0; break; }    /* a vanishing pivot may be rounding noise in working precision: undecidable */
        if (pv == 0 || pv < u * mx * (1.0L - 1e-6L)) { verdict = -1; break; }
        if (pv < u * mx * (1.0L + 1e-6L)) verdict = 0;
        ref_t piv = M[(size_t)k * n + k];
        for (int_t i = k + 1; i < n; ++i) {
            ref_t l = M[(size_t)k * n + i] / piv;
            if (l == 0) continue;
            for (int_t j = k + 1; j < n; ++j) { M[(size_t)j * n + i] -= l * M[(size_t)j * n + k]; ld a = rabs1(M[(size_t)j * n + i]); if (a > cscale[j]) cscale[j] = a; }
        }
    }
    free(M); free(cscale);
    return verdict;
}

static void destroy_factors(hs_t *H)
{
    if (H->have_lu) {
        if (H->lwork == 0) { Destroy_SuperNode_SCP(&H->L); Destroy_CompCol_NCP(&H->U); }
        else { Destroy_SuperMatrix_Store(&H->L); Destroy_SuperMatrix_Store(&H->U); }   /* storage lives in the caller's buffer */
        H->have_lu = 0;
    }
    if (H->have_ac) { pxgstrf_finalize(&H->opt, &H->AC); H->have_ac = 0; H->have_opt = 0; }
    free(H->W); H->W = NULL;
}

static int in_buf(const void *p, const void *buf, long len) { return (const char *)p >= (const char *)buf && (const char *)p < (const char *)buf + len; }

static int hist_core(const case_t *c, int emit)
{
    uint64_t seed = (uint64_t)cint(c, "seed", 1);
    rng_t rng = { seed * 2654435761ULL + 4001 };
    hs_t H; memset(&H, 0, sizeof H);
    hx_ienv_from_case(c);
    if (gen_matrix(c, &rng, &H.G)) { if (emit) { jo_begin(c); jo_str("error", "gen_matrix"); jo_end(); } return 2; }
    /* capacities of U (sp_ienv(7)) and of the L subscripts (sp_ienv(8)) as fractions of nnz(A): near the real need */
    if (cdbl(c, "fill7frac", 0) > 0) { hx_ienv[7] = (long)(cdbl(c, "fill7frac", 0) * (double)H.G.nnz); if (hx_ienv[7] < 1) hx_ienv[7] = 1; }
    if (cdbl(c, "fill8frac", 0) > 0) { hx_ienv[8] = (long)(cdbl(c, "fill8frac", 0) * (double)H.G.nnz); if (hx_ienv[8] < 1) hx_ienv[8] = 1; }
    int_t n = H.n = H.G.n;
    H.Gd = csc_dense(&H.G);
    H.base = xmalloc((H.G.nnz + 1) * sizeof(elem_t)); memcpy(H.base, H.G.val, H.G.nnz * sizeof(elem_t));
    H.u = cdbl(c, "u", 1.0);
    int mem = (int)cint(c, "mem", 0);
    int reps = (int)cint(c, "reps", 1);
    long failat = cint(c, "failat", 0);
    const char *ops = cstr(c, "ops", "F,S0");
    int nplist[16], nnp = 0;
    { const char *s = cstr(c, "nps", "1"); while (*s && nnp < 16) { nplist[nnp++] = (int)strtol(s, (char **)&s, 10); if (*s == ',') ++s; } if (!nnp) nplist[nnp++] = 1; }
    int ord = (int)cint(c, "ord", 1);
    int w = (int)hx_ienv[1], relax = (int)hx_ienv[2];
    H.perm_c = xmalloc((n + 1) * sizeof(int_t)); H.perm_r = xmalloc((n + 1) * sizeof(int_t)); H.perm_r_prev = xmalloc((n + 1) * sizeof(int_t));
    CREATE_COMPCOL(&H.A, n, n, H.G.nnz, H.G.val, H.G.rowind, H.G.colptr, SLU_NC, SLU_DT, SLU_GE);
    int_t nrhs = 1;
    elem_t *b = xmalloc((n + 1) * sizeof(elem_t)), *b0 = xmalloc((n + 1) * sizeof(elem_t));
    SuperMatrix B; CREATE_DENSE(&B, n, nrhs, b, n > 0 ? n : 1, SLU_DN, SLU_DT, SLU_GE);

    if (emit) jo_begin(c); else jo_quiet(1);
    jo_int("n", n); jo_int("nnz", H.G.nnz);
    char dig[1024]; dig[0] = 0; size_t dl = 0;
    char infos[512]; infos[0] = 0; size_t il = 0;
    int_t *retired[64]; int nretired = 0; long pp_moves = 0, sing_refact = 0;
    long nops = 0, nfact = 0, nrefact = 0, nsolve = 0, usepr_kept = 0, usepr_changed = 0, usepr_undec = 0, inbuf_checked = 0, queries = 0;
    size_t heap_after_rep[8]; long live_after_rep[8]; int nrepdone = 0;
    int opi = 0, stop = 0;
    sluv_alloc_reset();
    if (failat > 0) sluv_alloc_fail_from(failat);
    if (cint(c, "failsize", 0) > 0) sluv_alloc_fail_size(cint(c, "failsize", 0));
    long live_start = sluv_alloc_live();
    size_t heap_start = heap_bytes();
    int tasks_start = count_tasks();
    long est_bytes = 0, work_allocs = 0;
    ev_t *wev_keep = NULL; size_t nwev_keep = 0;

    for (int rep = 0; rep < reps && !stop; ++rep) {
        const char *p = ops;
        while (*p && !stop) {
            char op = *p++; int arg = 0;
            if (*p >= '0' && *p <= '9') arg = *p++ - '0';
            while (*p == ',') ++p;
            int nprocs = nplist[opi % nnp]; ++opi; ++nops;
            char key[96];
            if (op == 'F' || op == 'R' || op == 'Q' || op == 'X' || op == 'P' || op == 'Y') {
                /* P: the factors are destroyed and the matrix (new values) is factored from scratch (refact = NO) while the caller asks
                   for the previous row permutation to be kept (usepr = YES): the two options are independent */
                /* Y: a refactorization (Y1: with re-use of the previous row pivots) of new values in which one column is exactly zero */
                int refact = (op == 'R' || op == 'Y');
                if ((refact || op == 'P') && !H.have_lu) continue;             /* nothing to refactor / no previous pivots */
                if (!refact && H.have_lu) destroy_factors(&H);   /* a first factorization starts from scratch */
                int usepr = refact ? arg : (op == 'P');
                if (op == 'P') { ++H.valgen; new_values(&H, seed, H.valgen, arg % 2 == 0, 0); }
                elem_t *saved = NULL; int_t zc = -1;
                if (op == 'X') {    /* singular: one stored-zero column, restored after the call */
                    zc = (int_t)rng_int(&rng, n);
                    int_t len = H.G.colptr[zc + 1] - H.G.colptr[zc];
                    saved = xmalloc((len + 1) * sizeof(elem_t));
                    memcpy(saved, H.G.val + H.G.colptr[zc], len * sizeof(elem_t));
                    for (int_t q = H.G.colptr[zc]; q < H.G.colptr[zc + 1]; ++q) H.G.val[q] = MKE(0, 0);
                } else if (refact) { ++H.valgen; new_values(&H, seed, H.valgen, usepr && (H.valgen % 2 == 0), op == 'Y' ? 0 : (int)cint(c, "zeropiv", 0)); }
                if (op == 'Y') {
                    zc = (int_t)rng_int(&rng, n);
                    int_t len = H.G.colptr[zc + 1] - H.G.colptr[zc];
                    saved = xmalloc((len + 1) * sizeof(elem_t));
                    memcpy(saved, H.G.val + H.G.colptr[zc], len * sizeof(elem_t));
                    for (int_t q = H.G.colptr[zc]; q < H.G.colptr[zc + 1]; ++q) H.G.val[q] = MKE(0, 0);
                }
                long lwork = 0; void *work = NULL;
                if (op == 'Q') lwork = -1;
                else if (refact) { lwork = H.lwork; work = H.work; }
                else if (mem) {
                    lwork = cint(c, "lwbytes", 0);
                    if (lwork <= 0) {
                        if (!est_bytes) {        /* one silent query to size the buffer */
                            Gstat_t gs; superlumt_options_t o2; SuperMatrix AC2, L2, U2; int_t inf2 = 0;
                            int_t *pc2 = xmalloc((n + 1) * sizeof(int_t)), *pr2 = xmalloc((n + 1) * sizeof(int_t));
                            get_perm_c(ord, &H.A, pc2);
                            int qnp = cint(c, "qnp", 0) > 0 ? (int)cint(c, "qnp", 0) : nprocs;      /* qnp: the caller sized the buffer for another thread count */
                            StatAlloc(n, qnp, w, relax, &gs); StatInit(n, qnp, &gs);
                            GSTRF_INIT(qnp, DOFACT, NOTRANS, NO, w, relax, H.u, NO, 0.0, pc2, pr2, NULL, -1, &H.A, &AC2, &o2, &gs);
                            GSTRF(&o2, &AC2, pr2, &L2, &U2, &gs, &inf2);
                            est_bytes = inf2 > n ? (long)inf2 - n : 0;
                            pxgstrf_finalize(&o2, &AC2); StatFree(&gs); free(pc2); free(pr2);
                        }
                        lwork = (long)(cdbl(c, "lwfrac", 1.5) * (double)est_bytes);
                        /* the size is used as computed (the query's answer is not a multiple of 8 for even n), optionally with a few odd bytes */
                        lwork += cint(c, "lwodd", 0);
                        if (lwork <= 0) lwork = 8;
                    }
                    free(H.work); H.work = work = malloc((size_t)lwork);   /* plain malloc: ASan red zones at both ends */
                    memset(work, 0x5a, (size_t)lwork);
                }
                if (!refact) { H.lwork = lwork > 0 ? lwork : 0; }
                if (!refact) get_perm_c(ord, &H.A, H.perm_c);
                if (refact || op == 'P') memcpy(H.perm_r_prev, H.perm_r, n * sizeof(int_t));
                if (refact && cint(c, "pp", 0) && nretired + 2 <= 64) {
                    /* the caller hands over the permutations in OTHER arrays than at the previous call (ping-pong buffers, a copy made
                       to compare pivots afterwards): same contents, new addresses; the old arrays stay allocated but are poisoned, so a
                       pointer the library kept from an earlier call no longer leads to valid data */
                    int_t *nr = xmalloc((n + 1) * sizeof(int_t)), *nc = xmalloc((n + 1) * sizeof(int_t));
                    memcpy(nr, H.perm_r, (n + 1) * sizeof(int_t)); memcpy(nc, H.perm_c, (n + 1) * sizeof(int_t));
                    for (int_t q = 0; q <= n; ++q) { H.perm_r[q] = (int_t)(n + 7 + q); H.perm_c[q] = (int_t)(n + 11 + q); }
                    retired[nretired++] = H.perm_r; retired[nretired++] = H.perm_c;
                    H.perm_r = nr; H.perm_c = nc; ++pp_moves;
                }
                if (H.have_ac) { if (refact) Destroy_CompCol_Permuted(&H.AC); H.have_ac = 0; }
                StatAlloc(n, nprocs, w, relax, &H.Gstat); StatInit(n, nprocs, &H.Gstat);
                GSTRF_INIT(nprocs, DOFACT, NOTRANS, refact ? YES : NO, w, relax, H.u, usepr ? YES : NO, 0.0, H.perm_c, H.perm_r, work, lwork, &H.A, &H.AC, &H.opt, &H.Gstat);
                H.have_ac = 1; H.have_opt = 1;
                int_t info = -999;
                SuperMatrix Lsent, Usent;
                if (op == 'Q') { memset(&H.L, 0x3c, sizeof H.L); memset(&H.U, 0x3c, sizeof H.U); }
                Lsent = H.L; Usent = H.U;
                mon_reset(); mon_enable(lwork > 0 ? 2 : 0, (uint64_t)cint(c, "pert", 0) + opi, (int)cint(c, "pmode", 0), 1, nprocs);
                GSTRF(&H.opt, &H.AC, H.perm_r, &H.L, &H.U, &H.Gstat, &info);
                mon_disable();
                if (lwork > 0) {
                    free(wev_keep); wev_keep = NULL;
                    nwev_keep = mon_collect(&wev_keep);
                    work_allocs += mon_check_work(wev_keep, nwev_keep, work, lwork, "C14");
                }
                StatFree(&H.Gstat);
                il += snprintf(infos + il, sizeof infos - il, "%s%c%ld", il ? "," : "", op, (long)info);
                if (il > sizeof infos - 32) il = sizeof infos - 32;
                if (op == 'Q') {
                    ++queries;
                    if (memcmp(&H.L, &Lsent, sizeof Lsent) || memcmp(&H.U, &Usent, sizeof Usent)) jo_fail("C14|query-side-effect", "lwork = -1 wrote to L or U");
                    if (!(info > n)) { jo_fail("C14|query-size", "lwork = -1 returned info = %ld (n = %ld): not a positive size estimate", (long)info, (long)n); }
                    pxgstrf_finalize(&H.opt, &H.AC); H.have_ac = 0; H.have_opt = 0;
                    continue;
                }
                if (op == 'Y') {
                    memcpy(H.G.val + H.G.colptr[zc], saved, (H.G.colptr[zc + 1] - H.G.colptr[zc]) * sizeof(elem_t));
                    free(saved);
                    long want = (long)H.perm_c[zc] + 1;
                    if (!(info > 0 && info <= n)) jo_fail("C06|singular-not-reported", "history op Y%d (refactorization%s): column %ld is exactly zero but info = %ld", arg, usepr ? ", row pivots re-used" : "", (long)zc, (long)info);
                    else if (info != want) jo_fail("C06|wrong-index", "history op Y%d (refactorization%s): info = %ld but the all-zero column sits at position %ld of A*Pc", arg, usepr ? ", row pivots re-used" : "", (long)info, want);
                    else ++sing_refact;
                    if (info >= 0 && info <= n) { H.have_lu = 1; walk_LU(&H.L, &H.U, n, "C06|factors"); destroy_factors(&H); }
                    else { pxgstrf_finalize(&H.opt, &H.AC); H.have_ac = 0; H.have_opt = 0; H.have_lu = 0; }
                    continue;
                }
                if (op == 'X') {
                    memcpy(H.G.val + H.G.colptr[zc], saved, (H.G.colptr[zc + 1] - H.G.colptr[zc]) * sizeof(elem_t));
                    free(saved);
                    if (info >= 0 && info <= n) { H.have_lu = 1; destroy_factors(&H); }
                    else { pxgstrf_finalize(&H.opt, &H.AC); H.have_ac = 0; H.have_opt = 0; }
                    if (!(info > 0 && info <= n)) jo_fail("C06|singular-not-reported", "history op X: zero column but info = %ld", (long)info);
                    continue;
                }
                if (info > n) {
                    /* memory ran out: legitimate only with a too small workspace or a failing allocator */
                    jo_int("oom_info", info);
                    if (!(mem && cdbl(c, "lwfrac", 1.5) < 1.0) && !cint(c, "lwbytes", 0) && failat <= 0 && !cint(c, "oomok", 0))
                        jo_fail("C14|unexpected-oom", "factorization returned info = %ld > n although memory was sufficient", (long)info);
                    pxgstrf_finalize(&H.opt, &H.AC); H.have_ac = 0; H.have_opt = 0; H.have_lu = 0;
                    stop = 1; break;
                }
                if (info > 0 && info <= n && cint(c, "zeropiv", 0) > 0) {
                    /* exact zeros were planted at old pivot positions: the matrix may have become structurally singular */
                    csc_t Z = csc_clone(&H.G); int_t q2 = 0;
                    for (int_t j = 0; j < n; ++j) { int_t b0 = Z.colptr[j]; Z.colptr[j] = q2; for (int_t q = b0; q < H.G.colptr[j + 1]; ++q) if (rabs(E2R(H.G.val[q])) != 0) { Z.rowind[q2] = H.G.rowind[q]; Z.val[q2] = H.G.val[q]; ++q2; } }
                    Z.colptr[n] = q2; Z.nnz = q2;
                    long def = struct_rank_prefix(&Z, H.perm_c);
                    csc_free(&Z);
                    if (def > 0) { jo_int("became_singular", 1); H.have_lu = 1; stop = 1; break; }
                }
                if (info > 0 && info <= n && H.u == 0.0 && !cstr(c, "dom", "")[0]) {
                    /* threshold 0 on a matrix that is not diagonally dominant: the caller asked for no pivoting, tiny pivots, overflow
                       and NaN candidates (all comparisons false, "zero pivot") are the documented consequence, not a defect */
                    jo_int("u0_breakdown", 1); H.have_lu = 1; stop = 1; break;
                }
                if (info != 0) { snprintf(key, sizeof key, "C08|info-nonzero|%c", op); jo_fail(key, "op %ld (%c%d): info = %ld for a nonsingular matrix", nops, op, arg, (long)info); H.have_lu = (info > 0 && info <= n); stop = 1; break; }
                H.have_lu = 1;
                if (refact) ++nrefact; else ++nfact;
                long ns = 0, ms = 0;
                snprintf(key, sizeof key, "C09|%s", refact ? "refact" : "first");
                int vbad = validate_LU(&H.L, &H.U, H.perm_r, H.perm_c, n, key, &ns, &ms);
                if (vbad) { snprintf(key, sizeof key, "C08|factors-malformed|%c", op); jo_fail(key, "op %ld (%c%d): returned factors are not well-formed", nops, op, arg); stop = 1; break; }
                lud_t d; lud_extract(&H.L, &H.U, n, &d);
                free(H.W); H.W = NULL;
                snprintf(key, sizeof key, "C08|reconstruction|%c", op);
                ld growth = 0;
                check_reconstruction(H.Gd, &d, H.perm_r, H.perm_c, &H.W, &growth, key);
                if (usepr) {
                    int v = replay_pivots(H.Gd, n, H.perm_r_prev, H.perm_c, (ld)H.u);
                    if (getenv("HX_DEBUG")) {
                        fprintf(stderr, "op %ld verdict %d\nperm_c:", nops, v); for (int_t j = 0; j < n; ++j) fprintf(stderr, " %ld", (long)H.perm_c[j]);
                        fprintf(stderr, "\nperm_r_prev:"); for (int_t j = 0; j < n; ++j) fprintf(stderr, " %ld", (long)H.perm_r_prev[j]);
                        fprintf(stderr, "\nperm_r:     "); for (int_t j = 0; j < n; ++j) fprintf(stderr, " %ld", (long)H.perm_r[j]);
                        fprintf(stderr, "\nA (|.|1, row-major):\n"); for (int_t i = 0; i < n; ++i) { for (int_t j = 0; j < n; ++j) fprintf(stderr, " %10.3Le", rabs1(H.Gd[(size_t)j * n + i])); fprintf(stderr, "\n"); }
                    }
                    int same = !memcmp(H.perm_r_prev, H.perm_r, n * sizeof(int_t));
                    if (v == 1) { ++usepr_kept; if (!same) jo_fail("C08|usepr-changed-valid-pivots", "op %ld: every old pivot passes the threshold u=%g with margin but perm_r changed", nops, H.u); }
                    else if (v == -1) { ++usepr_changed; if (same) jo_fail("C08|usepr-kept-failing-pivot", "op %ld: an old pivot clearly fails the threshold u=%g but perm_r is unchanged", nops, H.u); }
                    else ++usepr_undec;
                }
                lud_free(&d);
                if (H.lwork > 0) {
                    /* all L/U storage inside the caller's buffer */
                    const SCPformat *Ls = H.L.Store; const NCPformat *Us = H.U.Store;
                    const void *ptrs[] = { Ls->nzval, Ls->rowind, Ls->nzval_colbeg, Ls->nzval_colend, Ls->rowind_colbeg, Ls->rowind_colend, Ls->col_to_sup, Ls->sup_to_colbeg, Ls->sup_to_colend,
                                           Us->nzval, Us->rowind, Us->colbeg, Us->colend };
                    /* the part of each array that the returned factors use */
                    long mxl = 0, mxs = 0, mxu = 0;
                    for (int_t j = 0; j < n; ++j) {
                        if (Ls->nzval_colend[j] > mxl) mxl = Ls->nzval_colend[j];
                        if (Ls->rowind_colend[j] > mxs) mxs = Ls->rowind_colend[j];
                        if (Us->colend[j] > mxu) mxu = Us->colend[j];
                    }
                    size_t lens[] = { (size_t)mxl * sizeof(elem_t), (size_t)mxs * sizeof(int_t), (size_t)(n + 1) * sizeof(int_t), (size_t)n * sizeof(int_t), (size_t)(n + 1) * sizeof(int_t), (size_t)n * sizeof(int_t),
                                      (size_t)(n + 1) * sizeof(int_t), (size_t)(n + 1) * sizeof(int_t), (size_t)n * sizeof(int_t),
                                      (size_t)mxu * sizeof(elem_t), (size_t)mxu * sizeof(int_t), (size_t)(n + 1) * sizeof(int_t), (size_t)n * sizeof(int_t) };
                    static const char *anm[] = { "L values", "L subscripts", "L nzval_colbeg", "L nzval_colend", "L rowind_colbeg", "L rowind_colend", "col_to_sup", "sup_to_colbeg", "sup_to_colend",
                                                 "U values", "U subscripts", "U colbeg", "U colend" };
                    int bad = 0;
                    for (size_t q = 0; q < sizeof ptrs / sizeof ptrs[0] && !bad; ++q) {
                        const char *lo = ptrs[q], *hi = lo + lens[q];
                        if (!in_buf(ptrs[q], H.work, H.lwork) || hi > (const char *)H.work + H.lwork) {
                            jo_fail("C14|storage-outside-workspace", "%s [%ld bytes used] of the returned factors do not lie inside the caller's workspace", anm[q], (long)lens[q]); bad = 1; break; }
                        for (size_t q2 = q + 1; q2 < sizeof ptrs / sizeof ptrs[0]; ++q2) {
                            const char *lo2 = ptrs[q2], *hi2 = lo2 + lens[q2];
                            if (lo < hi2 && lo2 < hi && lens[q] && lens[q2]) {
                                jo_fail("C14|storage-overlap", "%s (%ld bytes used) and %s (%ld bytes used) of the returned factors share memory inside the caller's workspace", anm[q], (long)lens[q], anm[q2], (long)lens[q2]); bad = 1; break; }
                        }
                    }
                    if (!bad && wev_keep) mon_check_work_vs(wev_keep, nwev_keep, ptrs, lens, anm, (int)(sizeof ptrs / sizeof ptrs[0]), "C14");
                    ++inbuf_checked;
                }
                uint64_t dg = lu_digest(&H, FNV0);
                dl += snprintf(dig + dl, sizeof dig - dl, "%s%c%d:%016llx", dl ? "," : "", op, arg, (unsigned long long)dg);
                if (dl > sizeof dig - 40) dl = sizeof dig - 40;
            } else if (op == 'S') {
                if (!H.have_lu) continue;
                int tr = arg % 3;
                gen_rhs(&rng, n, 1, n, b, "generic"); memcpy(b0, b, n * sizeof(elem_t));
                uint64_t h0 = lu_digest(&H, csc_hash(&H.G));
                Gstat_t gs; StatAlloc(n, 1, w, relax, &gs); StatInit(n, 1, &gs);
                int_t info = -999;
                GSTRS((trans_t)tr, &H.L, &H.U, H.perm_r, H.perm_c, &B, &gs, &info);
                StatFree(&gs);
                ++nsolve;
                if (info != 0) jo_fail("C08|solve-info", "op %ld (S%d): ?gstrs returned info = %ld", nops, tr, (long)info);
                if (lu_digest(&H, csc_hash(&H.G)) != h0) jo_fail("C08|solve-modified-state", "op %ld (S%d): a solve with existing factors modified A, L, U or a permutation", nops, tr);
                snprintf(key, sizeof key, "C08|residual|S%d", tr);
                if (H.W && info == 0) check_residual(H.Gd, n, tr, b, n, b0, n, 1, H.W, H.perm_r, H.perm_c, gam(3.0L * n), key);
                uint64_t dx = fnv(b, n * sizeof(elem_t), FNV0);
                dl += snprintf(dig + dl, sizeof dig - dl, "%sS%d:%016llx", dl ? "," : "", tr, (unsigned long long)dx);
                if (dl > sizeof dig - 40) dl = sizeof dig - 40;
            } else if (op == 'D') {
                destroy_factors(&H);
            } else if (op == 'V' || op == 'E') {
                /* complete driver calls on a private copy (leak classes of C17): arg 1 = singular variant */
                csc_t T = csc_clone(&H.G);
                if (arg == 1 && n > 0) { int_t zc = (int_t)rng_int(&rng, n); for (int_t q = T.colptr[zc]; q < T.colptr[zc + 1]; ++q) T.val[q] = MKE(0, 0); }
                if (cint(c, "escale", 0)) {      /* extreme magnitudes: every value times 2^escale (norms may overflow or underflow) */
                    int e = (int)cint(c, "escale", 0);
                    for (int_t q = 0; q < T.nnz; ++q) {
#if IS_COMPLEX
                        T.val[q].r = ldexp(T.val[q].r, e); T.val[q].i = ldexp(T.val[q].i, e);
#else
                        T.val[q] = (elem_t)ldexp((double)T.val[q], e);
#endif
                    }
                }
                SuperMatrix A2, L2, U2, B2, X2; memset(&L2, 0, sizeof L2); memset(&U2, 0, sizeof U2);
                int_t *pc2 = xmalloc((n + 1) * sizeof(int_t)), *pr2 = xmalloc((n + 1) * sizeof(int_t));
                elem_t *bb = xmalloc((n + 1) * sizeof(elem_t)), *xx = xmalloc((n + 1) * sizeof(elem_t));
                gen_rhs(&rng, n, 1, n, bb, "generic");
                if (cint(c, "zerorhs", 0) == 1) for (int_t i = 0; i < n; ++i) bb[i] = MKE(0, 0);          /* b = 0: x = 0, every |A||x|+|b| component is 0 */
                else if (cint(c, "zerorhs", 0) == 2) for (int_t i = 0; i < n; i += 2) bb[i] = MKE(0, 0);  /* some exactly zero components */
                /* arg 3: row-wise storage and a second call that re-uses the factors (fact = FACTORED); arg 4: the same column-wise */
                CREATE_COMPCOL(&A2, n, n, T.nnz, T.val, T.rowind, T.colptr, (op == 'E' && arg == 3) ? SLU_NR : SLU_NC, SLU_DT, SLU_GE);
                CREATE_DENSE(&B2, n, 1, bb, n > 0 ? n : 1, SLU_DN, SLU_DT, SLU_GE);
                CREATE_DENSE(&X2, n, 1, xx, n > 0 ? n : 1, SLU_DN, SLU_DT, SLU_GE);
                get_perm_c(ord, &A2, pc2);
                int_t info = -999;
                uint64_t dv = FNV0;
                if (op == 'V') { GSSV(nprocs, &A2, pc2, pr2, &L2, &U2, &B2, &info);
                    dv = fnv(&info, sizeof info, dv);
                    if (info >= 0 && info <= n) { dv = fnv(pr2, n * sizeof(int_t), dv); if (info == 0) dv = fnv(bb, n * sizeof(elem_t), dv); }
                } else {
                    superlumt_options_t o2; memset(&o2, 0, sizeof o2);
                    o2.nprocs = nprocs; o2.fact = EQUILIBRATE; o2.trans = NOTRANS; o2.refact = NO; o2.panel_size = w; o2.relax = relax;
                    o2.diag_pivot_thresh = H.u; o2.usepr = NO; o2.SymmetricMode = (arg == 5) ? YES : NO; o2.PrintStat = NO; o2.perm_c = pc2; o2.perm_r = pr2;
                    if (arg == 5) o2.diag_pivot_thresh = 0.0;      /* symmetric mode as EXAMPLE/p?linsolx2.c uses it */
                    if (arg == 2) o2.lwork = -1;      /* workspace query through the driver */
                    o2.etree = intMalloc(n + 1); o2.colcnt_h = intMalloc(n + 1); o2.part_super_h = intMalloc(n + 1);
                    real_t *R2 = xmalloc((n + 1) * sizeof(real_t)), *C2 = xmalloc((n + 1) * sizeof(real_t)), fe[2], be[2], rpg2, rc2;
                    /* the caller's equed variable is ONE variable that lives across the driver calls of the process (as in a real
                       program): whatever an earlier call left in it is what this call finds */
                    static equed_t shared_eq = NOEQUIL;
#define eq2 shared_eq
                    superlu_memusage_t mu;
                    GSSVX(nprocs, &o2, &A2, pc2, pr2, &eq2, R2, C2, &L2, &U2, &B2, &X2, &rpg2, &rc2, fe, be, &mu, &info);
                    if (arg == 6 && (info == 0 || info == n + 1)) {
                        /* re-use of valid factors with an A whose values are all zero (norm 0): still a legal call */
                        int_t info3 = -999;
                        for (int_t q = 0; q < T.nnz; ++q) T.val[q] = MKE(0, 0);
                        o2.fact = FACTORED;
                        GSSVX(nprocs, &o2, &A2, pc2, pr2, &eq2, R2, C2, &L2, &U2, &B2, &X2, &rpg2, &rc2, fe, be, &mu, &info3);
                    }
                    if ((arg == 3 || arg == 4) && info == 0) {
                        int_t info3 = -999;
                        o2.fact = FACTORED; o2.trans = (trans_t)(nops % 3);
                        gen_rhs(&rng, n, 1, n, bb, "generic");
                        GSSVX(nprocs, &o2, &A2, pc2, pr2, &eq2, R2, C2, &L2, &U2, &B2, &X2, &rpg2, &rc2, fe, be, &mu, &info3);
                        if (info3 != 0 && info3 != n + 1) jo_fail("C08|factored-info", "history op E%d: re-use of the factors returned info = %ld", arg, (long)info3);
                    }
                    SUPERLU_FREE(o2.etree); SUPERLU_FREE(o2.colcnt_h); SUPERLU_FREE(o2.part_super_h);
                    /* every output of the expert driver that is defined for this info */
                    dv = fnv(&info, sizeof info, dv);
                    if (arg != 2 && info >= 0 && info <= n + 1) {
                        dv = fnv(pr2, n * sizeof(int_t), dv); dv = fnv(&eq2, sizeof eq2, dv); dv = fnv(&rpg2, sizeof rpg2, dv);
                        if (eq2 == ROW || eq2 == BOTH) dv = fnv(R2, n * sizeof(real_t), dv);
                        if (eq2 == COL || eq2 == BOTH) dv = fnv(C2, n * sizeof(real_t), dv);
                        dv = fnv(bb, n * sizeof(elem_t), dv);      /* B as returned (scaled exactly as equed says, or untouched) */
                        if (info == 0 || info == n + 1) { dv = fnv(&rc2, sizeof rc2, dv); dv = fnv(xx, n * sizeof(elem_t), dv); dv = fnv(fe, sizeof(real_t), dv); dv = fnv(be, sizeof(real_t), dv); }
                    }
                    free(R2); free(C2);
#undef eq2
                }
                if (nprocs == 1) { dl += snprintf(dig + dl, sizeof dig - dl, "%s%c:%016llx", dl ? "," : "", op, (unsigned long long)dv); if (dl > sizeof dig - 40) dl = sizeof dig - 40; }
                il += snprintf(infos + il, sizeof infos - il, "%s%c%ld", il ? "," : "", op, (long)info);
                if (il > sizeof infos - 32) il = sizeof infos - 32;
                if (info >= 0 && info <= n + 1) { Destroy_SuperNode_SCP(&L2); Destroy_CompCol_NCP(&U2); }
                Destroy_SuperMatrix_Store(&A2); Destroy_SuperMatrix_Store(&B2); Destroy_SuperMatrix_Store(&X2);
                free(pc2); free(pr2); free(bb); free(xx); csc_free(&T);
            }
        }
        if (rep < 8) {
            /* leak growth is judged at the end of a repetition with everything handed back */
            if (cint(c, "leakcheck", 0)) { destroy_factors(&H); mon_reset(); /* drops the monitor's per-thread buffers */ live_after_rep[nrepdone] = sluv_alloc_live(); heap_after_rep[nrepdone++] = heap_bytes(); }
        }
    }
    destroy_factors(&H);
    free(wev_keep);
    free(H.work); H.work = NULL;
    long nfailed_allocs = sluv_alloc_failed();
    sluv_alloc_fail_from(0); sluv_alloc_fail_size(0);
    jo_int("maxreq", sluv_alloc_maxreq());
    int tasks_end = count_tasks_settled(tasks_start);
    jo_str("infos", infos); jo_str("digest", dig);
    jo_int("work_allocs", work_allocs); jo_int("nops", nops); jo_int("nfact", nfact); jo_int("nrefact", nrefact); jo_int("nsolve", nsolve); jo_int("queries", queries);
    jo_int("pp_moves", pp_moves); jo_int("sing_refact", sing_refact); jo_int("usepr_kept", usepr_kept); jo_int("usepr_changed", usepr_changed); jo_int("usepr_undec", usepr_undec); jo_int("inbuf_checked", inbuf_checked);
    jo_int("allocs", sluv_alloc_count()); jo_int("alloc_failed", nfailed_allocs); jo_int("est_bytes", est_bytes);
    if (tasks_end != tasks_start && !HX_TSAN) jo_fail("C17|thread-left", "thread count %d at start, %d at end of the history", tasks_start, tasks_end);
    if (cint(c, "leakcheck", 0) && nrepdone >= 3) {
        /* the first repetition may leave one-time runtime allocations (thread caches); later ones must not grow */
        long g = (long)heap_after_rep[nrepdone - 1] - (long)heap_after_rep[1];
        jo_int("heap_growth", g);
        jo_int("heap_precise", heap_precise());
        if (g > 0 && heap_precise()) jo_fail("C17|heap-growth", "live heap grew by %ld bytes between repetition 2 and repetition %d of the same call sequence", g, nrepdone);
    }
    /* (the count of live USER_MALLOC blocks is not usable as an oracle: the harness itself releases some library allocations with
       free(); the sanitizer's heap statistics and LeakSanitizer decide) */
    (void)live_after_rep;
    (void)heap_start; (void)live_start;
    if (emit) jo_end(); else jo_quiet(0);
    Destroy_SuperMatrix_Store(&H.A); Destroy_SuperMatrix_Store(&B);
    for (int q = 0; q < nretired; ++q) free(retired[q]);
    free(b); free(b0); free(H.perm_c); free(H.perm_r); free(H.perm_r_prev); free(H.Gd); free(H.base); csc_free(&H.G);
    return 0;
}

/* pre=<k:v;k:v;...>[|<...>]: prefix histories on other matrices run in the same process before the case itself
   (C18: the probe's outputs must not depend on them) */
int cmd_hist(const case_t *c)
{
    const char *pre = cstr(c, "pre", NULL);
    if (pre) {
        char *buf = strdup(pre);
        char *save = NULL;
        for (char *tok = strtok_r(buf, "|", &save); tok; tok = strtok_r(NULL, "|", &save)) {
            char line[1024]; size_t k = 0;
            k += snprintf(line, sizeof line, "cmd=hist id=-1 ");
            for (char *q = tok; *q && k < sizeof line - 2; ++q) line[k++] = (*q == ';') ? ' ' : (*q == ':') ? '=' : *q;
            line[k] = 0;
            case_t pc; case_parse(&pc, line);
            long sweep = cint(&pc, "sweep", 0);
            if (sweep > 0) {
                /* a long history of assorted small systems: sweep calls with seeds s0, s0+1, ... and orders 5..44 */
                long s0 = cint(&pc, "seed", 1);
                case_free(&pc);
                for (long i = 0; i < sweep; ++i) {
                    char l2[1200];
                    snprintf(l2, sizeof l2, "cmd=hist id=-1 seed=%ld n=%ld %s", s0 + i, 5 + (i * 7) % 40, line + strlen("cmd=hist id=-1 "));
                    case_parse(&pc, l2);
                    hist_core(&pc, 0);
                    case_free(&pc);
                }
                continue;
            }
            /* failures of the prefix itself are not this case's business: keep the record clean */
            hist_core(&pc, 0);
            case_free(&pc);
        }
        free(buf);
    }
    return hist_core(c, 1);
}
