/* kern: sparse kernels and format utilities against their dense definitions (C19)
 *   sub=gemv | gemm | trsv | langs | convert */
#include "hx.h"

#if defined(PREC_S)
extern float slangs(char *, SuperMatrix *);
#define LANGS_CALL slangs
#elif defined(PREC_D)
extern double dlangs(char *, SuperMatrix *);
#define LANGS_CALL dlangs
#elif defined(PREC_C)
extern float clangs(char *, SuperMatrix *);
#define LANGS_CALL clangs
#else
extern double zlangs(char *, SuperMatrix *);
#define LANGS_CALL zlangs
#endif

static ref_t opel(ref_t g, int conj) { return conj ? conjl(g) : g; }

static int k_gemv(const case_t *c, rng_t *rng, csc_t *G, int gemm)
{
    int_t m = G->m, n = G->n;
    const char *ts = cstr(c, "trans", "N");
    int tr = (ts[0] != 'N' && ts[0] != 'n'), cj = (ts[0] == 'C' || ts[0] == 'c');
    int_t incx = cint(c, "incx", 1), incy = cint(c, "incy", 1);
    int_t nv = gemm ? cint(c, "ncolb", 2) : 1;
    int_t lenx = tr ? m : n, leny = tr ? n : m;
    static const double sc[] = {0.0, 1.0, -1.0, 0.7, 2.5};
    int ai = (int)cint(c, "alpha", 3), bi = (int)cint(c, "beta", 3);
    elem_t alpha = MKE(sc[ai % 5], (ai % 5 == 3 && IS_COMPLEX) ? 0.3 : 0.0), beta = MKE(sc[bi % 5], (bi % 5 == 3 && IS_COMPLEX) ? -0.4 : 0.0);
    /* 5, 6: purely imaginary scalars in the complex precisions (a real value elsewhere): every special case of the scalars
       (zero, one, real, imaginary) is a separate path in hand-written complex kernels */
    if (ai >= 5) alpha = IS_COMPLEX ? MKE(0, ai == 5 ? 1.0 : -2.5) : MKE(ai == 5 ? 3.0 : -0.25, 0);
    if (bi >= 5) beta = IS_COMPLEX ? MKE(0, bi == 5 ? 1.0 : -0.5) : MKE(bi == 5 ? 3.0 : -0.25, 0);
    int_t ax = incx < 0 ? -incx : incx, ay = incy < 0 ? -incy : incy;
    if (gemm) { ax = ay = 1; incx = incy = 1; }
    int_t ldb = lenx + 1, ldc = leny + 2;
    size_t nx = gemm ? (size_t)ldb * nv : (size_t)(1 + (lenx - 1) * ax) + 2, ny = gemm ? (size_t)ldc * nv : (size_t)(1 + (leny - 1) * ay) + 2;
    if (lenx <= 0) nx = 2; if (leny <= 0) ny = 2;
    elem_t *x = xmalloc((nx + 1) * sizeof(elem_t)), *y = xmalloc((ny + 1) * sizeof(elem_t)), *y0 = xmalloc((ny + 1) * sizeof(elem_t));
    for (size_t i = 0; i < nx; ++i) x[i] = MKE(rng_sym(rng), rng_sym(rng));
    for (size_t i = 0; i < ny; ++i) y[i] = MKE(rng_sym(rng), rng_sym(rng));
    {   /* exact zeros in the operands (sparse x, unit vectors, zero vector): code that skips zero entries is exercised */
        int xz = (int)cint(c, "xzero", 0);
        size_t unit = nx ? (size_t)rng_int(rng, nx) : 0;
        for (size_t i = 0; i < nx && xz; ++i) {
            int z = xz == 1 ? rng_u01(rng) < 0.4 : xz == 2 ? (i != unit) : xz == 3 ? 1 : (i == 0);
            if (z) x[i] = MKE(0, 0);
        }
        if (cint(c, "yzero", 0)) for (size_t i = 0; i < ny; ++i) if (rng_u01(rng) < 0.5) y[i] = MKE(0, 0);
    }
    /* "When BETA is supplied as zero then Y (C) need not be set on input": with beta exactly zero and yunset != 0 the
       whole y buffer holds NaN / Inf / huge values; the result must be alpha*op(A)*x all the same */
    int yunset = (int)cint(c, "yunset", 0);
    int beta_zero = (E2R(beta) == 0);
    if (!beta_zero) yunset = 0;
    if (yunset) {
        real_t bad = yunset == 1 ? (real_t)NAN : yunset == 2 ? (real_t)INFINITY : yunset == 3 ? (real_t)-INFINITY : (real_t)(sizeof(real_t) == 4 ? 3.0e38 : 1.5e308);
        for (size_t i = 0; i < ny; ++i) y[i] = MKE(bad, (i & 1) ? bad : (real_t)1.0);
    }
    memcpy(y0, y, ny * sizeof(elem_t));
    uint64_t hA = csc_hash(G), hx = fnv(x, nx * sizeof(elem_t), FNV0);
    SuperMatrix A;
    CREATE_COMPCOL(&A, m, n, G->nnz, G->val, G->rowind, G->colptr, SLU_NC, SLU_DT, SLU_GE);
    char tch[2] = { ts[0], 0 };
    int_t rc;
    if (gemm) rc = SP_GEMM(tch, leny, nv, lenx, alpha, &A, x, ldb, beta, y, ldc);
    else rc = SP_GEMV(tch, alpha, &A, x, incx, beta, y, incy);
    jo_int("rc", rc); jo_int("m", m); jo_int("n", n);
    if (csc_hash(G) != hA || fnv(x, nx * sizeof(elem_t), FNV0) != hx) jo_fail("C19|gemv-input-modified", "A or x was modified");
    /* dense definition in extended precision */
    ref_t *Gd = csc_dense(G);
    long kmax = 0;
    {   long *cnt = xcalloc((tr ? n : m) + 1, sizeof(long));
        for (int_t j = 0; j < n; ++j) for (int_t k = G->colptr[j]; k < G->colptr[j + 1]; ++k) cnt[tr ? j : G->rowind[k]]++;
        for (int_t i = 0; i < (tr ? n : m); ++i) if (cnt[i] > kmax) kmax = cnt[i];
        free(cnt); }
    ld worst = 0; long nv_bad = 0;
    for (int_t v = 0; v < nv; ++v) {
        for (int_t i = 0; i < leny; ++i) {
            ref_t s = 0; ld as = 0;
            for (int_t j = 0; j < lenx; ++j) {
                ref_t g = tr ? Gd[(size_t)i * m + j] : Gd[(size_t)j * m + i];
                if (g == 0) continue;
                g = opel(g, cj);
                size_t xi = gemm ? (size_t)v * ldb + j : (size_t)(incx > 0 ? j * ax : (lenx - 1 - j) * ax);
                s += g * E2R(x[xi]); as += rabs(g) * rabs(E2R(x[xi]));
            }
            size_t yi = gemm ? (size_t)v * ldc + i : (size_t)(incy > 0 ? i * ay : (leny - 1 - i) * ay);
            ref_t want = E2R(alpha) * s + (beta_zero ? (ref_t)0 : E2R(beta) * E2R(y0[yi]));
            ld bound = gam((ld)kmax + 3) * (rabs(E2R(alpha)) * as + (beta_zero ? (ld)0 : rabs(E2R(beta)) * rabs(E2R(y0[yi])))) * (IS_COMPLEX ? 2 : 1)
                       + 8 * (ld)(kmax + 3) * HX_UFL * (1 + rabs(E2R(alpha)));   /* underflowed products */
            ld e = rabs(E2R(y[yi]) - want);
            ld ratio = e == 0 ? 0 : (bound == 0 ? 1e300L : e / bound);
            if (!(e == e)) ratio = 1e300L;
            if (ratio > worst) worst = ratio;
            if (ratio > 1 && nv_bad++ == 0)
                jo_fail(gemm ? "C19|gemm-mismatch" : "C19|gemv-mismatch", "trans=%s alpha#%d beta#%d incx=%ld incy=%ld: y(%ld) = %.6Le, dense definition gives %.6Le (error %.2Le, bound %.2Le)",
                        tch, ai % 5, bi % 5, (long)incx, (long)incy, (long)i, rabs(E2R(y[yi])), rabs(want), e, bound);
        }
    }
    /* entries of y outside the strided positions must be untouched */
    if (!gemm && leny > 0) for (size_t q = 0; q < ny; ++q) {
        int on = (q % ay == 0) && (q / ay < (size_t)leny);
        if (!on && memcmp(&y[q], &y0[q], sizeof(elem_t))) { jo_fail("C19|gemv-stride-overwrite", "y[%zu] is not part of the strided vector but was modified", q); break; }
    }
    jo_dbl("ratio", (double)worst);
    free(Gd); free(x); free(y); free(y0);
    Destroy_SuperMatrix_Store(&A);
    return 0;
}

static int k_langs(const case_t *c, csc_t *G)
{
    int_t m = G->m, n = G->n;
    SuperMatrix A;
    CREATE_COMPCOL(&A, m, n, G->nnz, G->val, G->rowind, G->colptr, SLU_NC, SLU_DT, SLU_GE);
    ref_t *Gd = csc_dense(G);
    long kmax = 1;
    static const char *norms[] = {"M", "1", "O", "I", "F", "E"};
    for (int q = 0; q < 6; ++q) {
        char nm[2] = { norms[q][0], 0 };
        double got = (double)LANGS_CALL(nm, &A);
        ld want = 0;
        if (q == 0) { for (size_t t = 0; t < (size_t)m * n; ++t) if (rabs(Gd[t]) > want) want = rabs(Gd[t]); }
        else if (q <= 2) { for (int_t j = 0; j < n; ++j) { ld s = 0; for (int_t i = 0; i < m; ++i) s += rabs(Gd[(size_t)j * m + i]); if (s > want) want = s; } kmax = m; }
        else if (q == 3) { for (int_t i = 0; i < m; ++i) { ld s = 0; for (int_t j = 0; j < n; ++j) s += rabs(Gd[(size_t)j * m + i]); if (s > want) want = s; } kmax = n; }
        else { ld s = 0; for (size_t t = 0; t < (size_t)m * n; ++t) s += creall(Gd[t] * conjl(Gd[t])); want = sqrtl(s); kmax = (long)m * n; }
        /* complex modulus costs a few roundings per entry: (k+4)u relative; max-norm of a real matrix is exact */
        ld tol = (q == 0 && !IS_COMPLEX) ? 0 : ((ld)(kmax > G->nnz ? G->nnz : kmax) + 4) * UROUND * (IS_COMPLEX ? 3 : 1);
        if (fabsl((ld)got - want) > tol * want + (want == 0 ? 0 : 0))
            jo_fail("C19|langs-mismatch", "norm %s: returned %.9e, dense definition %.9Le (tolerance %.2Le relative)", nm, got, want, tol);
    }
    free(Gd); Destroy_SuperMatrix_Store(&A);
    return 0;
}

static int k_convert(const case_t *c, rng_t *rng, csc_t *G)
{
    int_t m = G->m, n = G->n;
    /* CompRow_to_CompCol: interpret G's arrays as the CSR of G^T (n rows of length colptr..) */
    elem_t *at = NULL; int_t *rowind = NULL, *colptr = NULL;
    uint64_t h0 = csc_hash(G);
    /* a CSR matrix with n rows, m columns = G^T */
    COMPROW_TO_COMPCOL(n, m, G->nnz, G->val, G->rowind, G->colptr, &at, &rowind, &colptr);
    if (csc_hash(G) != h0) jo_fail("C19|convert-input-modified", "CompRow_to_CompCol modified its input");
    /* result is the CSC of G^T (m columns): compare as sets with the transpose built by the harness */
    csc_t T = csc_transpose(G, 0);
    int bad = 0;
    if (colptr[m] != G->nnz) bad = 1;
    for (int_t j = 0; j < m && !bad; ++j) {
        if (colptr[j + 1] - colptr[j] != T.colptr[j + 1] - T.colptr[j]) { bad = 1; break; }
        for (int_t k = colptr[j]; k < colptr[j + 1]; ++k) {
            int found = 0;
            for (int_t q = T.colptr[j]; q < T.colptr[j + 1]; ++q)
                if (T.rowind[q] == rowind[k] && !memcmp(&T.val[q], &at[k], sizeof(elem_t))) { found = 1; break; }
            if (!found) { bad = 1; break; }
        }
    }
    if (bad) jo_fail("C19|comprow-to-compcol", "CompRow_to_CompCol did not return the same (i,j,value) set");
    SUPERLU_FREE(at); SUPERLU_FREE(rowind); SUPERLU_FREE(colptr);
    csc_free(&T);
    /* Copy_CompCol_Matrix */
    SuperMatrix A, Bm;
    CREATE_COMPCOL(&A, m, n, G->nnz, G->val, G->rowind, G->colptr, SLU_NC, SLU_DT, SLU_GE);
    csc_t H; H.m = m; H.n = n; H.nnz = G->nnz;
    H.colptr = xcalloc(n + 2, sizeof(int_t)); H.rowind = xcalloc(G->nnz + 1, sizeof(int_t)); H.val = xcalloc(G->nnz + 1, sizeof(elem_t));
    CREATE_COMPCOL(&Bm, 0, 0, 0, H.val, H.rowind, H.colptr, SLU_NR, SLU_DT, SLU_GE);
    COPY_COMPCOL(&A, &Bm);
    NCformat *Bs = Bm.Store;
    if (Bm.Stype != SLU_NC || Bm.nrow != m || Bm.ncol != n || Bs->nnz != G->nnz || csc_hash(&H) != h0 || csc_hash(G) != h0)
        jo_fail("C19|copy-compcol", "Copy_CompCol_Matrix did not reproduce the matrix");
    Destroy_SuperMatrix_Store(&Bm); csc_free(&H);
    /* Create_CompCol_Permuted view */
    {
        int_t *cb = xmalloc((n + 1) * sizeof(int_t)), *ce = xmalloc((n + 1) * sizeof(int_t));
        for (int_t j = 0; j < n; ++j) { cb[j] = G->colptr[j]; ce[j] = G->colptr[j + 1]; }
        SuperMatrix Pm;
        CREATE_PERMUTED(&Pm, m, n, G->nnz, G->val, G->rowind, cb, ce, SLU_NCP, SLU_DT, SLU_GE);
        NCPformat *Ps = Pm.Store;
        if (Pm.Stype != SLU_NCP || Pm.nrow != m || Pm.ncol != n || Ps->nnz != G->nnz || Ps->nzval != (void *)G->val || Ps->rowind != G->rowind || Ps->colbeg != cb || Ps->colend != ce)
            jo_fail("C19|create-permuted", "Create_CompCol_Permuted does not describe the arrays it was given");
        Destroy_SuperMatrix_Store(&Pm); free(cb); free(ce);
    }
    Destroy_SuperMatrix_Store(&A);
    (void)rng; (void)c;
    return 0;
}

/* triangular solves with the supernodal L and column-wise U of a real factorization */
static int k_trsv(const case_t *c, rng_t *rng, csc_t *G)
{
    int_t n = G->n;
    int nprocs = (int)cint(c, "np", 1);
    SuperMatrix A, AC, L, U;
    superlumt_options_t opt; Gstat_t Gstat;
    int_t *perm_c = xmalloc((n + 1) * sizeof(int_t)), *perm_r = xmalloc((n + 1) * sizeof(int_t));
    int_t info = 0;
    CREATE_COMPCOL(&A, n, n, G->nnz, G->val, G->rowind, G->colptr, SLU_NC, SLU_DT, SLU_GE);
    int ord = (int)cint(c, "ord", 0);
    get_perm_c(ord, &A, perm_c);
    StatAlloc(n, nprocs, hx_ienv[1], hx_ienv[2], &Gstat); StatInit(n, nprocs, &Gstat);
    GSTRF_INIT(nprocs, DOFACT, NOTRANS, NO, hx_ienv[1], hx_ienv[2], 1.0, NO, 0.0, perm_c, perm_r, NULL, 0, &A, &AC, &opt, &Gstat);
    mon_reset(); mon_enable(0, (uint64_t)cint(c, "pert", 0), (int)cint(c, "pmode", 0), 1, nprocs);
    GSTRF(&opt, &AC, perm_r, &L, &U, &Gstat, &info);
    mon_disable();
    jo_int("info", info); jo_int("n", n);
    if (info == 0 && !validate_LU(&L, &U, perm_r, perm_c, n, "C09", NULL, NULL)) {
        lud_t d; lud_extract(&L, &U, n, &d);
        static const char *uplo[] = {"L", "U"}, *tr[] = {"N", "T", "C"};
        elem_t *x = xmalloc((n + 1) * sizeof(elem_t)), *x0 = xmalloc((n + 1) * sizeof(elem_t));
        ref_t *xr = xmalloc((n + 1) * sizeof(ref_t));
        uint64_t hL = 0, hU = 0;
        {   const SCPformat *Ls = L.Store; const NCPformat *Us = U.Store; long long mx = 0, ux = 0;
            for (int_t j = 0; j < n; ++j) { if (Ls->nzval_colend[j] > mx) mx = Ls->nzval_colend[j]; if (Us->colend[j] > ux) ux = Us->colend[j]; }
            hL = fnv(Ls->nzval, (size_t)mx * sizeof(elem_t), FNV0); hU = fnv(Us->nzval, (size_t)ux * sizeof(elem_t), FNV0);
            for (int u = 0; u < 2; ++u) for (int t = 0; t < 3; ++t) {
                const char *dg = u == 0 ? "U" : "N";
                for (int_t i = 0; i < n; ++i) x[i] = MKE(rng_sym(rng), rng_sym(rng));
                {   /* sparse right-hand sides: exact zeros travel through the substitution (zero-skip paths) */
                    int xz = (int)cint(c, "xzero", 0); size_t unit = n ? (size_t)rng_int(rng, n) : 0;
                    for (int_t i = 0; i < n && xz; ++i) {
                        int z = xz == 1 ? rng_u01(rng) < 0.6 : xz == 2 ? ((size_t)i != unit) : xz == 3 ? 1 : (i < n / 2);
                        if (xz == 5) z = (i >= n / 2);
                        if (z) x[i] = MKE(0, 0);
                    }
                }
                memcpy(x0, x, n * sizeof(elem_t));
                int_t tinfo = 0;
                hx_xerbla_count = 0;
                SP_TRSV((char *)uplo[u], (char *)tr[t], (char *)dg, &L, &U, x, &tinfo);
                char key[64];
                snprintf(key, sizeof key, "C19|trsv-%s%s", uplo[u], tr[t]);
                if (tinfo != 0 || hx_xerbla_count) { jo_fail(key, "sp_trsv(%s,%s,%s) rejected a documented option (info %ld)", uplo[u], tr[t], dg, (long)tinfo); continue; }
                /* residual: op(T) x = x0 with T = L (unit) or U */
                const ref_t *T = u == 0 ? d.L : d.U;
                for (int_t i = 0; i < n; ++i) xr[i] = E2R(x[i]);
                ld worst = 0; long nb = 0;
                for (int_t i = 0; i < n; ++i) {
                    ref_t s = 0; ld as = 0;
                    for (int_t j = 0; j < n; ++j) {
                        ref_t g = (t == 0) ? T[(size_t)j * n + i] : T[(size_t)i * n + j];
                        if (g == 0) continue;
                        if (t == 2) g = conjl(g);
                        s += g * xr[j]; as += rabs(g) * rabs(xr[j]);
                    }
                    ld e = rabs(s - E2R(x0[i]));
                    ld bound = gam((ld)n + 2) * as * (IS_COMPLEX ? 2 : 1) + 1e-4000L;
                    ld ratio = e == 0 ? 0 : e / bound;
                    if (!(e == e)) ratio = 1e300L;
                    if (ratio > worst) worst = ratio;
                    if (ratio > 1 && nb++ == 0) jo_fail(key, "sp_trsv(%s,%s,%s): residual row %ld = %.3Le exceeds gamma(n)|T||x| = %.3Le", uplo[u], tr[t], dg, (long)i, e, bound);
                }
            }
            if (fnv(Ls->nzval, (size_t)mx * sizeof(elem_t), FNV0) != hL || fnv(Us->nzval, (size_t)ux * sizeof(elem_t), FNV0) != hU)
                jo_fail("C19|trsv-modified-factors", "sp_trsv modified L or U");
        }
        free(x); free(x0); free(xr); lud_free(&d);
    }
    if (info >= 0 && info <= n) { Destroy_SuperNode_SCP(&L); Destroy_CompCol_NCP(&U); }
    pxgstrf_finalize(&opt, &AC); StatFree(&Gstat); Destroy_SuperMatrix_Store(&A);
    free(perm_c); free(perm_r);
    return 0;
}

/* ?gscon called directly with every documented spelling of the norm letter on the factors of a real factorization */
static int k_gscon(const case_t *c, rng_t *rng, csc_t *G)
{
    (void)rng;
    int_t n = G->n;
    int nprocs = (int)cint(c, "np", 1);
    SuperMatrix A, AC, L, U;
    superlumt_options_t opt; Gstat_t Gstat;
    int_t *perm_c = xmalloc((n + 1) * sizeof(int_t)), *perm_r = xmalloc((n + 1) * sizeof(int_t));
    int_t info = 0;
    CREATE_COMPCOL(&A, n, n, G->nnz, G->val, G->rowind, G->colptr, SLU_NC, SLU_DT, SLU_GE);
    get_perm_c((int)cint(c, "ord", 0), &A, perm_c);
    StatAlloc(n, nprocs, hx_ienv[1], hx_ienv[2], &Gstat); StatInit(n, nprocs, &Gstat);
    GSTRF_INIT(nprocs, DOFACT, NOTRANS, NO, hx_ienv[1], hx_ienv[2], 1.0, NO, 0.0, perm_c, perm_r, NULL, 0, &A, &AC, &opt, &Gstat);
    GSTRF(&opt, &AC, perm_r, &L, &U, &Gstat, &info);
    jo_int("info", info); jo_int("n", n);
    ref_t *Gd = csc_dense(G), *Gi = xmalloc((size_t)n * n * sizeof(ref_t) + 16);
    if (info == 0 && !ref_inverse(Gd, n, Gi)) {
        static const char *letters[] = {"1", "O", "o", "I", "i"};
        for (int q = 0; q < 5; ++q) {
            int one = q < 3;
            /* ||M||_1 = max column sum, ||M||_inf = max row sum (column-major dense arrays) */
            ld an = 0, ain = 0, s_en = 0, mincol = 1e4900L;
            for (int_t a = 0; a < n; ++a) {
                ld sa = 0, si = 0;
                for (int_t b = 0; b < n; ++b) {
                    sa += one ? rabs(Gd[(size_t)a * n + b]) : rabs(Gd[(size_t)b * n + a]);
                    si += one ? rabs(Gi[(size_t)a * n + b]) : rabs(Gi[(size_t)b * n + a]);
                }
                if (sa > an) an = sa; if (si > ain) ain = si; if (si < mincol) mincol = si;
            }
            if (one) { for (int_t i = 0; i < n; ++i) { ref_t s = 0; for (int_t j = 0; j < n; ++j) s += Gi[(size_t)j * n + i]; s_en += rabs(s) / n; } }
            else { for (int_t j = 0; j < n; ++j) { ref_t s = 0; for (int_t i = 0; i < n; ++i) s += conjl(Gi[(size_t)j * n + i]); s_en += rabs(s) / n; } }
            ld kappa = an * ain;
            if (kappa * (ld)n * UROUND > 1e-3L) continue;
            char nm[2] = { letters[q][0], 0 };
            real_t anorm = LANGS(nm, &A), rcond = (real_t)-1; int_t ginfo = -99;
            if (fabsl((ld)anorm - an) > 8.0L * n * UROUND * an) jo_fail("C19|langs-mismatch", "?langs('%s') = %.9g, dense definition %.9Lg", nm, (double)anorm, an);
            GSCON(nm, &L, &U, anorm, &rcond, &ginfo);
            ld lo = 1.0L / kappa, delta = 8.0L * n * UBOUND * kappa, hi2 = 1.0L / (an * (mincol < s_en ? mincol : s_en));
            if (delta > 0.5L) delta = 0.5L;
            char key[64];
            if (ginfo != 0) { snprintf(key, sizeof key, "C12|gscon-info|%s", nm); jo_fail(key, "?gscon('%s') returned info = %ld", nm, (long)ginfo); continue; }
            if ((ld)rcond < lo * (1.0L - delta) * (1.0L - 64 * UROUND)) { snprintf(key, sizeof key, "C12|rcond-below-lower-bound|gscon-%s", nm); jo_fail(key, "?gscon('%s'): rcond = %.6e below 1/kappa = %.6Le", nm, (double)rcond, lo); }
            else if ((ld)rcond > hi2 * (1.0L + delta) * (1.0L + 64 * UROUND)) { snprintf(key, sizeof key, "C12|rcond-above-any-estimate|gscon-%s", nm); jo_fail(key, "?gscon('%s'): rcond = %.6e exceeds every admissible estimate %.6Le", nm, (double)rcond, hi2); }
            else jo_int("gscon_judged", 1);
        }
    }
    free(Gd); free(Gi);
    if (info >= 0 && info <= n) { Destroy_SuperNode_SCP(&L); Destroy_CompCol_NCP(&U); }
    pxgstrf_finalize(&opt, &AC); StatFree(&Gstat); Destroy_SuperMatrix_Store(&A);
    free(perm_c); free(perm_r);
    return 0;
}

int cmd_kern(const case_t *c)
{
    rng_t rng = { (uint64_t)cint(c, "seed", 1) * 2654435761ULL + 99 };
    csc_t G;
    hx_ienv_from_case(c);
    if (gen_matrix(c, &rng, &G)) { jo_begin(c); jo_str("error", "gen_matrix"); jo_end(); return 2; }
    const char *sub = cstr(c, "sub", "gemv");
    jo_begin(c);
    jo_str("sub", sub); jo_int("nnz", G.nnz);
    if (!strcmp(sub, "gemv")) k_gemv(c, &rng, &G, 0);
    else if (!strcmp(sub, "gemm")) k_gemv(c, &rng, &G, 1);
    else if (!strcmp(sub, "langs")) k_langs(c, &G);
    else if (!strcmp(sub, "convert")) k_convert(c, &rng, &G);
    else if (!strcmp(sub, "trsv")) k_trsv(c, &rng, &G);
    else if (!strcmp(sub, "gscon")) k_gscon(c, &rng, &G);
    else jo_str("error", "unknown sub");
    jo_end();
    csc_free(&G);
    return 0;
}
