/* order: get_perm_c and sp_colorder against a quadratic independent reference (C10) */
#include "hx.h"

/* parent function of the Cholesky factor of the symmetric boolean pattern B (n x n, B[i*n+j]) by naive
   symbolic elimination: struct(j) = {i>j: B(i,j)} U children's structures; parent = min(struct) */
static void ref_etree(const unsigned char *B, int_t n, int_t *parent)
{
    unsigned char *S = xcalloc((size_t)n * n + 1, 1);     /* S[j*n+i]: i in struct(j), i>j */
    for (int_t j = 0; j < n; ++j) {
        unsigned char *Sj = S + (size_t)j * n;
        for (int_t i = j + 1; i < n; ++i) if (B[(size_t)i * n + j] || B[(size_t)j * n + i]) Sj[i] = 1;
        for (int_t k = 0; k < j; ++k) if (parent[k] == j) {
            const unsigned char *Sk = S + (size_t)k * n;
            for (int_t i = j + 1; i < n; ++i) if (Sk[i]) Sj[i] = 1;
        }
        parent[j] = n;
        for (int_t i = j + 1; i < n; ++i) if (Sj[i]) { parent[j] = i; break; }
    }
    free(S);
}

static void pattern_ata(const csc_t *G, const int_t *perm_c, unsigned char *B)
{
    int_t n = G->n, m = G->m;
    /* rows -> list of (permuted) columns */
    memset(B, 0, (size_t)n * n);
    int_t *cnt = xcalloc(m + 2, sizeof(int_t)), *lst = xmalloc((G->nnz + 1) * sizeof(int_t));
    for (int_t k = 0; k < G->nnz; ++k) cnt[G->rowind[k] + 1]++;
    for (int_t i = 0; i < m; ++i) cnt[i + 1] += cnt[i];
    int_t *nx = xmalloc((m + 1) * sizeof(int_t)); memcpy(nx, cnt, (m + 1) * sizeof(int_t));
    for (int_t j = 0; j < n; ++j) for (int_t k = G->colptr[j]; k < G->colptr[j + 1]; ++k) lst[nx[G->rowind[k]]++] = perm_c[j];
    for (int_t i = 0; i < m; ++i)
        for (int_t a = cnt[i]; a < cnt[i + 1]; ++a) for (int_t b = cnt[i]; b < cnt[i + 1]; ++b)
            B[(size_t)lst[a] * n + lst[b]] = 1;
    free(cnt); free(lst); free(nx);
}
static void pattern_aplusat(const csc_t *G, const int_t *perm_c, unsigned char *B)
{
    int_t n = G->n;
    memset(B, 0, (size_t)n * n);
    for (int_t j = 0; j < n; ++j) for (int_t k = G->colptr[j]; k < G->colptr[j + 1]; ++k) {
        int_t i = G->rowind[k];
        if (i >= n) continue;
        B[(size_t)perm_c[i] * n + perm_c[j]] = 1; B[(size_t)perm_c[j] * n + perm_c[i]] = 1;
    }
}

/* deep elimination trees at large n (the quadratic reference above stops at a few hundred columns): k interleaved
   chains, A(i,i) and A(i+k,i); natural ordering; the checks are linear: bijection, A*Pc columns, parent > child,
   every subtree a contiguous range ending at its root, and the tree is the relabelled forest of k chains */
static int order_deep(const case_t *c)
{
    int_t n = cint(c, "n", 1000000), k = cint(c, "chains", 1); int symm = (int)cint(c, "symm", 0);
    if (k < 1) k = 1;
    csc_t G; memset(&G, 0, sizeof G);
    G.m = G.n = n; G.colptr = xmalloc((n + 2) * sizeof(int_t)); G.rowind = xmalloc(((size_t)2 * n + 2) * sizeof(int_t)); G.val = xmalloc(((size_t)2 * n + 2) * sizeof(elem_t));
    int_t q = 0;
    for (int_t j = 0; j < n; ++j) { G.colptr[j] = q; G.rowind[q] = j; G.val[q++] = MKE(4, 0); if (j + k < n) { G.rowind[q] = j + k; G.val[q++] = MKE(-1, 0); } }
    G.colptr[n] = q; G.nnz = q;
    SuperMatrix A; CREATE_COMPCOL(&A, n, n, G.nnz, G.val, G.rowind, G.colptr, SLU_NC, SLU_DT, SLU_GE);
    int_t *perm_c = xmalloc((n + 1) * sizeof(int_t));
    jo_begin(c); jo_str("sub", "deep"); jo_int("n", n); jo_int("nnz", G.nnz); jo_int("chains", k);
    get_perm_c(0, &A, perm_c);
    superlumt_options_t opt; memset(&opt, 0, sizeof opt);
    opt.refact = NO; opt.SymmetricMode = symm ? YES : NO; opt.nprocs = 1;
    opt.etree = intMalloc(n + 1); opt.colcnt_h = intMalloc(n + 1); opt.part_super_h = intMalloc(n + 1);
    SuperMatrix AC; memset(&AC, 0, sizeof AC);
    sp_colorder(&A, perm_c, &opt, &AC);
    if (!is_perm(perm_c, n)) jo_fail("C10|perm_c-not-bijection", "sp_colorder returned a perm_c that is not a permutation (n = %ld)", (long)n);
    else {
        NCPformat *Cs = AC.Store;
        for (int_t i = 0; i < n; ++i) if (Cs->colbeg[perm_c[i]] != G.colptr[i] || Cs->colend[perm_c[i]] != G.colptr[i + 1]) { jo_fail("C10|AC-columns", "column perm_c[%ld] of A*Pc is not column %ld of A", (long)i, (long)i); break; }
        int ok = 1;
        for (int_t j = 0; j < n && ok; ++j) if (opt.etree[j] <= j || opt.etree[j] > n) { ok = 0; jo_fail("C10|etree-range", "etree[%ld] = %ld", (long)j, (long)opt.etree[j]); }
        /* column i has parent i + k (or is a root): the reported tree must be that forest relabelled by perm_c */
        for (int_t i = 0; i < n && ok; ++i) {
            int_t want = i + k < n ? perm_c[i + k] : n;
            if (opt.etree[perm_c[i]] != want) { ok = 0; jo_fail("C10|etree-mismatch", "reported parent of column %ld is %ld, expected %ld", (long)perm_c[i], (long)opt.etree[perm_c[i]], (long)want); }
        }
        if (ok) {
            int_t *size = xcalloc(n + 1, sizeof(int_t)), *fd = xmalloc((n + 1) * sizeof(int_t));
            for (int_t j = 0; j < n; ++j) { size[j] += 1; fd[j] = j; }
            for (int_t j = 0; j < n; ++j) { int_t p = opt.etree[j]; if (p < n) size[p] += size[j]; }
            for (int_t j = 0; j < n; ++j) { int_t p = opt.etree[j]; if (p < n && fd[j] < fd[p]) fd[p] = fd[j]; }
            for (int_t j = 0; j < n; ++j) if (j - fd[j] + 1 != size[j]) { jo_fail("C10|not-postordered", "subtree of column %ld has %ld nodes but spans [%ld,%ld]", (long)j, (long)size[j], (long)fd[j], (long)j); break; }
            free(size); free(fd);
        }
    }
    jo_end();
    if (AC.Store) Destroy_CompCol_Permuted(&AC);
    SUPERLU_FREE(opt.etree); SUPERLU_FREE(opt.colcnt_h); SUPERLU_FREE(opt.part_super_h);
    Destroy_SuperMatrix_Store(&A); free(perm_c); csc_free(&G);
    return 0;
}

/* several application threads preprocess different, unrelated matrices at the same time (each with its own arguments): every
   result has to be the one the same call gives when nothing else runs.  The orderings are deterministic, so the comparison is
   bit for bit; under ThreadSanitizer any state shared between the calls shows as a race. */
#include <pthread.h>
typedef struct { csc_t G; SuperMatrix A; int ispec, symm, rounds; uint64_t ref, got; long bad; } occ_t;
static uint64_t occ_once(occ_t *o)
{
    int_t n = o->G.n;
    int_t *perm_c = xmalloc((n + 1) * sizeof(int_t));
    get_perm_c(o->ispec, &o->A, perm_c);
    superlumt_options_t opt; memset(&opt, 0, sizeof opt);
    opt.refact = NO; opt.SymmetricMode = o->symm ? YES : NO; opt.nprocs = 1;
    opt.etree = intMalloc(n + 1); opt.colcnt_h = intMalloc(n + 1); opt.part_super_h = intMalloc(n + 1);
    SuperMatrix AC; memset(&AC, 0, sizeof AC);
    sp_colorder(&o->A, perm_c, &opt, &AC);
    uint64_t h = fnv(perm_c, n * sizeof(int_t), FNV0);
    h = fnv(opt.etree, n * sizeof(int_t), h); h = fnv(opt.colcnt_h, n * sizeof(int_t), h); h = fnv(opt.part_super_h, n * sizeof(int_t), h);
    if (AC.Store) Destroy_CompCol_Permuted(&AC);
    SUPERLU_FREE(opt.etree); SUPERLU_FREE(opt.colcnt_h); SUPERLU_FREE(opt.part_super_h);
    free(perm_c);
    return h;
}
static void *occ_thread(void *arg)
{
    occ_t *o = arg;
    for (int r = 0; r < o->rounds; ++r) { o->got = occ_once(o); if (o->got != o->ref) ++o->bad; }
    return NULL;
}
static int order_concurrent(const case_t *c)
{
    int napp = (int)cint(c, "napp", 3); if (napp < 2) napp = 2; if (napp > 8) napp = 8;
    occ_t o[8]; memset(o, 0, sizeof o);
    jo_begin(c);
    jo_str("sub", "concurrent"); jo_int("napp", napp);
    int ok = 1; long nsum = 0, nzsum = 0;
    for (int t = 0; t < napp; ++t) {
        rng_t rng = { (uint64_t)(cint(c, "seed", 1) + 7919 * t) * 2654435761ULL + 31337 };
        if (gen_matrix(c, &rng, &o[t].G)) { ok = 0; napp = t; break; }
        CREATE_COMPCOL(&o[t].A, o[t].G.m, o[t].G.n, o[t].G.nnz, o[t].G.val, o[t].G.rowind, o[t].G.colptr, SLU_NC, SLU_DT, SLU_GE);
        o[t].ispec = (int)((cint(c, "ord", 0) + t) % 4); o[t].symm = (int)cint(c, "symm", 0); o[t].rounds = (int)cint(c, "rounds", 20);
        o[t].ref = occ_once(&o[t]);          /* alone */
        nsum += o[t].G.n; nzsum += o[t].G.nnz;
    }
    jo_int("n", nsum); jo_int("nnz", nzsum);
    if (ok) {
        pthread_t th[8];
        for (int t = 0; t < napp; ++t) pthread_create(&th[t], NULL, occ_thread, &o[t]);
        for (int t = 0; t < napp; ++t) pthread_join(th[t], NULL);
        long bad = 0; for (int t = 0; t < napp; ++t) bad += o[t].bad;
        jo_int("concurrent_calls", (long)napp * o[0].rounds);
        if (bad) jo_fail("C10|concurrent-callers-differ", "%ld of %ld preprocessing calls made while other application threads preprocessed other matrices returned another perm_c / etree / column counts / partition than the same call alone", bad, (long)napp * o[0].rounds);
    } else jo_str("error", "gen_matrix");
    jo_end();
    for (int t = 0; t < napp; ++t) { Destroy_SuperMatrix_Store(&o[t].A); csc_free(&o[t].G); }
    return ok ? 0 : 2;
}

int cmd_order(const case_t *c)
{
    if (!strcmp(cstr(c, "sub", "colorder"), "deep")) return order_deep(c);
    if (!strcmp(cstr(c, "sub", "colorder"), "concurrent")) return order_concurrent(c);
    rng_t rng = { (uint64_t)cint(c, "seed", 1) * 2654435761ULL + 31337 };
    csc_t G;
    if (gen_matrix(c, &rng, &G)) { jo_begin(c); jo_str("error", "gen_matrix"); jo_end(); return 2; }
    int_t n = G.n, m = G.m;
    const char *sub = cstr(c, "sub", "colorder");
    int ispec = (int)cint(c, "ord", 0);
    int symm = (int)cint(c, "symm", 0);
    uint64_t h0 = csc_hash(&G);
    SuperMatrix A;
    CREATE_COMPCOL(&A, m, n, G.nnz, G.val, G.rowind, G.colptr, SLU_NC, SLU_DT, SLU_GE);
    int_t *perm_c = xmalloc((n + 1) * sizeof(int_t));
    for (int_t j = 0; j <= n; ++j) perm_c[j] = -5;
    jo_begin(c);
    jo_str("sub", sub); jo_int("n", n); jo_int("m", m); jo_int("nnz", G.nnz); jo_int("ord", ispec);
    get_perm_c(ispec, &A, perm_c);
    if (!is_perm(perm_c, n)) jo_fail("C10|perm_c-not-bijection", "get_perm_c(%d) did not return a permutation", ispec);
    else if (ispec == 0) { for (int_t j = 0; j < n; ++j) if (perm_c[j] != j) { jo_fail("C10|natural-not-identity", "natural ordering is not the identity"); break; } }
    if (perm_c[n] != -5) jo_fail("C10|perm_c-overrun", "get_perm_c wrote past perm_c[n-1]");
    if (csc_hash(&G) != h0) jo_fail("C10|A-modified", "get_perm_c modified A");

    if (!strcmp(sub, "colorder") && m == n && is_perm(perm_c, n)) {
        if (cint(c, "randperm", 0)) {            /* a caller-supplied ordering */
            for (int_t i = n - 1; i > 0; --i) { int_t j = rng_int(&rng, i + 1); int_t t = perm_c[i]; perm_c[i] = perm_c[j]; perm_c[j] = t; }
        }
        int_t *pin = xmalloc((n + 1) * sizeof(int_t)); memcpy(pin, perm_c, n * sizeof(int_t));
        superlumt_options_t opt; memset(&opt, 0, sizeof opt);
        opt.refact = NO; opt.SymmetricMode = symm ? YES : NO; opt.nprocs = 1;
        opt.etree = intMalloc(n + 1); opt.colcnt_h = intMalloc(n + 1); opt.part_super_h = intMalloc(n + 1);
        for (int_t j = 0; j <= n; ++j) { opt.etree[j] = -7; opt.colcnt_h[j] = -7; opt.part_super_h[j] = -7; }
        SuperMatrix AC; memset(&AC, 0, sizeof AC);
        sp_colorder(&A, perm_c, &opt, &AC);
        if (csc_hash(&G) != h0) jo_fail("C10|A-modified", "sp_colorder modified A");
        if (opt.etree[n] != -7 || opt.colcnt_h[n] != -7 || opt.part_super_h[n] != -7) jo_fail("C10|array-overrun", "sp_colorder wrote past an n-sized output array");
        if (!is_perm(perm_c, n)) jo_fail("C10|perm_c-not-bijection", "sp_colorder returned a perm_c that is not a permutation");
        else {
            NCPformat *Cs = AC.Store;
            if (AC.Stype != SLU_NCP || AC.nrow != m || AC.ncol != n || !Cs || Cs->nzval != (void *)G.val || Cs->rowind != G.rowind || Cs->nnz != G.nnz)
                jo_fail("C10|AC-header", "A*Pc does not share A's value/row-index arrays or has a wrong header");
            else for (int_t i = 0; i < n; ++i)
                if (Cs->colbeg[perm_c[i]] != G.colptr[i] || Cs->colend[perm_c[i]] != G.colptr[i + 1]) { jo_fail("C10|AC-columns", "column perm_c[%ld] of A*Pc is not column %ld of A", (long)i, (long)i); break; }
            /* reference elimination trees */
            unsigned char *B = xmalloc((size_t)n * n + 1);
            int_t *tin = xmalloc((n + 1) * sizeof(int_t)), *tout = xmalloc((n + 1) * sizeof(int_t));
            if (symm) pattern_aplusat(&G, pin, B); else pattern_ata(&G, pin, B);
            ref_etree(B, n, tin);
            if (symm) pattern_aplusat(&G, perm_c, B); else pattern_ata(&G, perm_c, B);
            ref_etree(B, n, tout);
            int okrange = 1;
            for (int_t j = 0; j < n; ++j) if (opt.etree[j] <= j || opt.etree[j] > n) { okrange = 0; jo_fail("C10|etree-range", "etree[%ld] = %ld", (long)j, (long)opt.etree[j]); break; }
            if (okrange) {
                for (int_t j = 0; j < n; ++j) if (opt.etree[j] != tout[j]) { jo_fail("C10|etree-mismatch", "reported parent of column %ld is %ld, the elimination tree of the final A*Pc has %ld", (long)j, (long)opt.etree[j], (long)tout[j]); break; }
                /* postorder: every subtree is a contiguous range ending at its root */
                int_t *size = xcalloc(n + 1, sizeof(int_t)), *fd = xmalloc((n + 1) * sizeof(int_t));
                for (int_t j = 0; j < n; ++j) { size[j] += 1; fd[j] = j; }
                for (int_t j = 0; j < n; ++j) { int_t p = opt.etree[j]; if (p < n) { size[p] += size[j]; } }
                for (int_t j = 0; j < n; ++j) { int_t p = opt.etree[j]; if (p < n && fd[j] < fd[p]) fd[p] = fd[j]; }
                for (int_t j = 0; j < n; ++j) if (j - fd[j] + 1 != size[j]) { jo_fail("C10|not-postordered", "subtree of column %ld has %ld nodes but spans [%ld,%ld]", (long)j, (long)size[j], (long)fd[j], (long)j); break; }
                free(size); free(fd);
                /* the caller's ordering is only composed with a relabelling q of its own elimination tree */
                int_t *q = xmalloc((n + 1) * sizeof(int_t));
                for (int_t i = 0; i < n; ++i) q[pin[i]] = perm_c[i];
                for (int_t v = 0; v < n; ++v) {
                    int_t pv = tin[v];
                    int_t want = (pv >= n) ? n : q[pv];
                    if (opt.etree[q[v]] != want) { jo_fail("C10|not-a-tree-relabelling", "perm_c was changed by more than a relabelling of the elimination tree (node %ld)", (long)v); break; }
                }
                free(q);
            }
            /* supernode partition and column counts of the bounding factor */
            int_t pos = 0; int okp = 1;
            while (pos < n && okp) {
                int_t w = opt.part_super_h[pos];
                if (w <= 0 || pos + w > n) { okp = 0; jo_fail("C10|partition-broken", "part_super_h[%ld] = %ld", (long)pos, (long)w); break; }
                for (int_t k = pos + 1; k < pos + w; ++k) if (opt.part_super_h[k] != 0) { okp = 0; jo_fail("C10|partition-broken", "part_super_h[%ld] = %ld inside a block", (long)k, (long)opt.part_super_h[k]); break; }
                pos += w;
            }
            /* (no range claim on colcnt_h: for structurally singular patterns the bound routine legitimately returns degenerate counts) */
            free(B); free(tin); free(tout);
        }
        if (AC.Store) Destroy_CompCol_Permuted(&AC);
        SUPERLU_FREE(opt.etree); SUPERLU_FREE(opt.colcnt_h); SUPERLU_FREE(opt.part_super_h);
        free(pin);
    }
    jo_end();
    Destroy_SuperMatrix_Store(&A);
    free(perm_c);
    csc_free(&G);
    return 0;
}
