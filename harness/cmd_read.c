/* read: the three file readers fed through stdin (C20).  The file is produced by the independent
 * python writer (vlib/mmio.py); the arrays that come back are printed for comparison. */
#include "hx.h"

int cmd_read(const case_t *c)
{
    const char *fmt = cstr(c, "fmt", "hb"), *file = cstr(c, "file", "");
    jo_begin(c);
    jo_str("fmt", fmt);
    /* prefiles=a;b;...: other well-formed files read first, by the same reader in the same process (a program that reads several
       matrices); what comes back for them is dropped, only the main file is compared */
    const char *pre = cstr(c, "prefiles", "");
    if (pre[0]) {
        char *buf2 = strdup(pre), *save = NULL;
        for (char *tok = strtok_r(buf2, ";", &save); tok; tok = strtok_r(NULL, ";", &save)) {
            if (!freopen(tok, "r", stdin)) continue;
            int_t m2, n2, nz2; elem_t *v2 = NULL; int_t *r2 = NULL, *c2 = NULL;
            if (!strcmp(fmt, "hb")) { READHB(&m2, &n2, &nz2, &v2, &r2, &c2); }
            else if (!strcmp(fmt, "rb")) { READRB(&m2, &n2, &nz2, &v2, &r2, &c2); }
            else { READMT(&m2, &n2, &nz2, &v2, &r2, &c2); }
            SUPERLU_FREE(v2); SUPERLU_FREE(r2); SUPERLU_FREE(c2);
        }
        free(buf2);
    }
    if (!freopen(file, "r", stdin)) { jo_str("error", "cannot open file"); jo_end(); return 2; }
    int_t m = -1, n = -1, nnz = -1; elem_t *val = NULL; int_t *rowind = NULL, *colptr = NULL;
    if (!strcmp(fmt, "hb")) { READHB(&m, &n, &nnz, &val, &rowind, &colptr); }
    else if (!strcmp(fmt, "rb")) { READRB(&m, &n, &nnz, &val, &rowind, &colptr); }
    else { READMT(&m, &n, &nnz, &val, &rowind, &colptr); }
    jo_int("m", m); jo_int("n", n); jo_int("nnz", nnz);
    if (n >= 0 && n < 100000 && nnz >= 0 && nnz < 10000000 && colptr && rowind && val) {
        size_t cap = (size_t)(n + 2) * 12 + (size_t)nnz * 12 + (size_t)nnz * (sizeof(elem_t) * 2 + 4) + 64;
        char *buf = xmalloc(cap); size_t k = 0;
        k += snprintf(buf + k, cap - k, "[");
        for (int_t j = 0; j <= n; ++j) k += snprintf(buf + k, cap - k, "%s%ld", j ? "," : "", (long)colptr[j]);
        k += snprintf(buf + k, cap - k, "]");
        jo_raw("colptr", buf);
        int_t cnt = colptr[n]; if (cnt < 0 || cnt > nnz) cnt = nnz;
        k = 0; k += snprintf(buf + k, cap - k, "[");
        for (int_t q = 0; q < cnt; ++q) k += snprintf(buf + k, cap - k, "%s%ld", q ? "," : "", (long)rowind[q]);
        k += snprintf(buf + k, cap - k, "]");
        jo_raw("rowind", buf);
        k = 0; k += snprintf(buf + k, cap - k, "\"");
        const unsigned char *pb = (const unsigned char *)val;
        for (size_t q = 0; q < (size_t)cnt * sizeof(elem_t); ++q) k += snprintf(buf + k, cap - k, "%02x", pb[q]);
        k += snprintf(buf + k, cap - k, "\"");
        jo_raw("valhex", buf);
        free(buf);
    }
    jo_end();
    if (val) SUPERLU_FREE(val);
    if (rowind) SUPERLU_FREE(rowind);
    if (colptr) SUPERLU_FREE(colptr);
    return 0;
}
