/* sched: harness-driven scheduler explorer (C03 monitor 3, C04 iv).
 *
 * The library's own ParallelInit, pxgstrf_relax_snode, pxgstrf_scheduler and
 * pxgstrf_mark_busy_descends run single-threaded on the library's own data; only the
 * workers are simulated.  A worker's actions: call the scheduler, pass the next wait
 * point of its busy chain (enabled when that column is released), release its next
 * column (joining the previous supernode or starting a new one: both are explored),
 * finish its panel, leave the loop.  Every interleaving of these actions is executed
 * (depth-first with snapshot/restore and state hashing) for every postordered forest
 * with n columns, and the invariants are asserted after every action. */
#include "hx.h"
#include <stdarg.h>

#define MAXN 10
#define MAXP 4

typedef struct {
    int phase;          /* 0 idle (will call the scheduler), 1 waiting on chain, 2 releasing columns, 3 exited */
    int_t cur;          /* panel last finished (argument of the next scheduler call) or EMPTY */
    int_t jcol, w, bcol;
    int_t wait[MAXN]; int nwait, wi;
    int_t next;         /* next column of the panel to release */
} wk_t;

typedef struct {
    pan_status_t ps[MAXN + 1];
    int_t fb[MAXN + 1], spin[MAXN], q[MAXN + 2], supno[MAXN + 1], xsup[MAXN + 1];
    int_t head, tail, count, tasks, nsuper;
    wk_t wk[MAXP];
    int taken[MAXN];
} snap_t;

static int_t gn, getree[MAXN + 1];
static int gP;
static pxgstrf_shared_t gsh;
static GlobalLU_t gGlu;
static Gstat_t gGs;
static superlumt_options_t gopt;
static wk_t gwk[MAXP];
static int gtaken[MAXN];
static long g_states, g_trans, g_takes, g_pipe_takes, g_maxdepth, g_deadlocks, g_viol;
static long g_cap, g_cfg_states, g_truncated;   /* optional bound on the states of one configuration (stated in the evidence) */
static uint64_t *hset; static size_t hcap, hcnt;
static char g_first[256];

static void save(snap_t *s)
{
    memcpy(s->ps, gsh.pan_status, (gn + 1) * sizeof(pan_status_t));
    memcpy(s->fb, gsh.fb_cols, (gn + 1) * sizeof(int_t));
    for (int_t i = 0; i < gn; ++i) s->spin[i] = gsh.spin_locks[i];
    memcpy(s->q, gsh.taskq.queue, gn * sizeof(int_t));
    memcpy(s->supno, gGlu.supno, (gn + 1) * sizeof(int_t)); memcpy(s->xsup, gGlu.xsup, (gn + 1) * sizeof(int_t));
    s->head = gsh.taskq.head; s->tail = gsh.taskq.tail; s->count = gsh.taskq.count; s->tasks = gsh.tasks_remain; s->nsuper = gGlu.nsuper;
    memcpy(s->wk, gwk, sizeof gwk); memcpy(s->taken, gtaken, sizeof gtaken);
}
static void restore(const snap_t *s)
{
    memcpy(gsh.pan_status, s->ps, (gn + 1) * sizeof(pan_status_t));
    memcpy(gsh.fb_cols, s->fb, (gn + 1) * sizeof(int_t));
    for (int_t i = 0; i < gn; ++i) gsh.spin_locks[i] = s->spin[i];
    memcpy(gsh.taskq.queue, s->q, gn * sizeof(int_t));
    memcpy(gGlu.supno, s->supno, (gn + 1) * sizeof(int_t)); memcpy(gGlu.xsup, s->xsup, (gn + 1) * sizeof(int_t));
    gsh.taskq.head = s->head; gsh.taskq.tail = s->tail; gsh.taskq.count = s->count; gsh.tasks_remain = s->tasks; gGlu.nsuper = s->nsuper;
    memcpy(gwk, s->wk, sizeof gwk); memcpy(gtaken, s->taken, sizeof gtaken);
}
static uint64_t state_hash(void)
{
    snap_t s; memset(&s, 0, sizeof s); save(&s);
    /* only the live part of the queue matters */
    for (int_t i = 0; i < MAXN + 2; ++i) if (i < s.head || i >= s.tail) s.q[i] = -9;
    return fnv(&s, sizeof s, FNV0);
}
static int seen(uint64_t h)
{
    if (!h) h = 1;
    size_t i = (size_t)(h * 0x9e3779b97f4a7c15ULL >> 17) & (hcap - 1);
    while (hset[i]) { if (hset[i] == h) return 1; i = (i + 1) & (hcap - 1); }
    if (hcnt * 2 > hcap) return 0;      /* table full: stop memoising (still sound, only slower) */
    hset[i] = h; ++hcnt;
    return 0;
}
static void viol(const char *key, const char *fmt, ...)
{
    char msg[256]; va_list ap;
    va_start(ap, fmt); vsnprintf(msg, sizeof msg, fmt, ap); va_end(ap);
    if (!g_viol++) snprintf(g_first, sizeof g_first, "%.60s: %.180s", key, msg);
    if (g_viol <= 3) jo_fail(key, "%s", msg);
}

static int_t dadpanel(int_t j) { int_t p = getree[j + gsh.pan_status[j].size - 1]; if (p >= gn) return gn; return gsh.pan_status[p].size > 0 ? p : p + gsh.pan_status[p].size; }
static int_t leader(int_t c) { return gsh.pan_status[c].size > 0 ? c : c + gsh.pan_status[c].size; }

static void check_global(const char *where)
{
    long untaken = 0, npanels = 0;
    for (int_t j = 0; j < gn; ++j) if (gsh.pan_status[j].size > 0) { ++npanels; if (!gtaken[j]) ++untaken; }
    if (gsh.tasks_remain != untaken) viol("C04|model|tasks-count", "%s: tasks_remain = %ld but %ld panels are untaken", where, (long)gsh.tasks_remain, untaken);
    if (gsh.taskq.tail > gn || gsh.taskq.head > gsh.taskq.tail || gsh.taskq.count != gsh.taskq.tail - gsh.taskq.head || gsh.taskq.count < 0)
        viol("C04|model|queue", "%s: queue head %ld tail %ld count %ld (n = %ld)", where, (long)gsh.taskq.head, (long)gsh.taskq.tail, (long)gsh.taskq.count, (long)gn);
}

static void check_take(int wkr, int_t J, int_t bcol)
{
    if (J < 0 || J >= gn || gsh.pan_status[J].size <= 0) { viol("C04|model|take-not-leader", "scheduler handed out column %ld", (long)J); return; }
    if (gtaken[J]) viol("C04|model|panel-taken-twice", "panel %ld handed out twice", (long)J);
    ++g_takes;
    unsigned char on[MAXN + 1]; memset(on, 0, sizeof on);
    if (bcol != J) {
        ++g_pipe_takes;
        if (bcol < 0 || bcol >= gn || gsh.pan_status[bcol].size <= 0) { viol("C03|model|bcol-not-panel", "panel %ld: busy column %ld is not a panel leader", (long)J, (long)bcol); return; }
        int_t X = bcol; int guard = 0;
        while (X != J) {
            on[X] = 1;
            /* a chain panel is BUSY, or already DONE while a descendant still has to mark itself DONE (it released its
               last column but has not left its pruning step): both are states in which its columns can be waited for */
            if (gsh.pan_status[X].state != BUSY && gsh.pan_status[X].state != DONE) viol("C03|model|chain-not-taken", "panel %ld taken with chain panel %ld in state %d", (long)J, (long)X, (int)gsh.pan_status[X].state);
            X = dadpanel(X);
            if (X >= gn || X > J || ++guard > gn) { viol("C03|model|bcol-not-descendant", "panel %ld: busy column %ld is not a descendant", (long)J, (long)bcol); return; }
        }
    }
    for (int_t D = 0; D < J; ++D) {
        if (gsh.pan_status[D].size <= 0) continue;
        int_t X = dadpanel(D);
        if (X != J && !(X < gn && on[X])) continue;
        if (gsh.pan_status[D].state == DONE || on[D]) continue;
        viol("C03|model|taken-before-children-done", "panel %ld handed out (busy column %ld) while child panel %ld of %ld is in state %d and not on the busy chain", (long)J, (long)bcol, (long)D, (long)X, (int)gsh.pan_status[D].state);
    }
    (void)wkr;
}

static void explore(int depth);

static void step_done(int depth) { ++g_trans; check_global("after action"); if (!g_viol) explore(depth + 1); }

static void explore(int depth)
{
    if (g_viol > 3) return;
    if (depth > g_maxdepth) g_maxdepth = depth;
    uint64_t h = state_hash();
    if (seen(h)) return;
    if (g_cap > 0 && g_cfg_states >= g_cap) { if (g_cfg_states == g_cap) { ++g_truncated; ++g_cfg_states; } return; }
    ++g_states; ++g_cfg_states;
    snap_t s; save(&s);
    int enabled = 0, allexit = 1;
    for (int p = 0; p < gP; ++p) {
        wk_t *W = &gwk[p];
        if (W->phase != 3) allexit = 0;
        if (W->phase == 0) {
            if (gsh.tasks_remain <= 0) {            /* while ( tasks_remain > 0 ) fails: the worker leaves */
                ++enabled; W->phase = 3; step_done(depth); restore(&s);
                continue;
            }
            int_t jc = W->cur, bc = EMPTY;
            pxgstrf_scheduler(p, gn, getree, &jc, &bc, &gsh);
            if (jc == EMPTY) {
                W->cur = EMPTY;
                if (state_hash() != h) { ++enabled; step_done(depth); }     /* the call only retired the finished panel */
                restore(&s);
                continue;
            }
            ++enabled;
            check_take(p, jc, bc);
            gtaken[jc] = 1;
            W->jcol = jc; W->w = gsh.pan_status[jc].size; W->cur = EMPTY; W->next = jc; W->nwait = 0; W->wi = 0;
            if (gsh.pan_status[jc].type == RELAXED_SNODE) W->phase = 2;
            else {
                int_t lbusy[MAXN]; for (int_t i = 0; i < gn; ++i) lbusy[i] = EMPTY;
                pxgstrf_mark_busy_descends(p, jc, getree, &gsh, &bc, lbusy);
                W->bcol = bc;
                for (int_t k = bc; k < jc; k = getree[k]) W->wait[W->nwait++] = k;
                W->phase = W->nwait ? 1 : 2;
            }
            step_done(depth); restore(&s);
        } else if (W->phase == 1) {
            int_t k = W->wait[W->wi];
            if (gsh.spin_locks[k] == 0) {
                ++enabled;
                if (++W->wi == W->nwait) W->phase = 2;
                step_done(depth); restore(&s);
            }
        } else if (W->phase == 2) {
            ++enabled;
            if (gsh.pan_status[W->jcol].type == RELAXED_SNODE) {
                int_t ns = ++gGlu.nsuper; gGlu.xsup[ns] = W->jcol;
                for (int_t c = W->jcol; c < W->jcol + W->w; ++c) { gGlu.supno[c] = ns; gsh.spin_locks[c] = 0; }
                gsh.pan_status[W->jcol].state = DONE; W->cur = W->jcol; W->phase = 0;
                step_done(depth); restore(&s);
            } else if (W->next < W->jcol + W->w) {
                int_t c = W->next;
                /* the column either joins the supernode of c-1 (only possible along a chain) or starts a new one */
                int canjoin = (c > 0 && getree[c - 1] == c && gsh.spin_locks[c - 1] == 0 && gsh.pan_status[leader(c - 1)].type != RELAXED_SNODE) || (c > W->jcol);
                for (int choice = 0; choice <= canjoin; ++choice) {
                    if (choice == 1) gGlu.supno[c] = gGlu.supno[c - 1];
                    else { int_t ns = ++gGlu.nsuper; gGlu.xsup[ns] = c; gGlu.supno[c] = ns; }
                    gsh.spin_locks[c] = 0; W->next = c + 1;
                    step_done(depth); restore(&s);
                }
            } else {
                gsh.pan_status[W->jcol].state = DONE; W->cur = W->jcol; W->phase = 0;
                step_done(depth); restore(&s);
            }
        }
    }
    if (!enabled && !allexit) {
        ++g_deadlocks;
        viol("C04|model|deadlock", "no action is enabled: tasks_remain %ld, worker phases %d %d %d (waiting for columns %ld %ld %ld)", (long)gsh.tasks_remain,
             gwk[0].phase, gwk[1].phase, gP > 2 ? gwk[2].phase : -1, (long)(gwk[0].phase == 1 ? gwk[0].wait[gwk[0].wi] : -1), (long)(gwk[1].phase == 1 ? gwk[1].wait[gwk[1].wi] : -1),
             (long)(gP > 2 && gwk[2].phase == 1 ? gwk[2].wait[gwk[2].wi] : -1));
    }
    if (allexit) {
        for (int_t j = 0; j < gn; ++j) if (gsh.pan_status[j].size > 0 && gsh.pan_status[j].state != DONE) { viol("C04|model|exit-with-unfinished-panel", "all workers left but panel %ld is in state %d", (long)j, (int)gsh.pan_status[j].state); break; }
        for (int_t j = 0; j < gn; ++j) if (gsh.spin_locks[j]) { viol("C04|model|column-never-released", "all workers left but column %ld was never released", (long)j); break; }
    }
}

static int postordered(const int_t *et, int_t n)
{
    int_t fd[MAXN + 1], sz[MAXN + 1];
    for (int_t j = 0; j <= n; ++j) { fd[j] = j; sz[j] = 1; }
    for (int_t j = 0; j < n; ++j) { int_t p = et[j]; if (p <= j || p > n) return 0; if (p < n) { sz[p] += sz[j]; if (fd[j] < fd[p]) fd[p] = fd[j]; } }
    for (int_t j = 0; j < n; ++j) if (j - fd[j] + 1 != sz[j]) return 0;
    return 1;
}

static void run_config(int_t n, const int_t *et, int w, int relax, int P)
{
    gn = n; gP = P;
    memcpy(getree, et, n * sizeof(int_t)); getree[n] = n;
    memset(&gsh, 0, sizeof gsh); memset(&gGlu, 0, sizeof gGlu); memset(&gGs, 0, sizeof gGs); memset(&gopt, 0, sizeof gopt);
    int_t etcopy[MAXN + 1]; memcpy(etcopy, getree, sizeof etcopy);
    gopt.etree = etcopy; gopt.panel_size = w; gopt.relax = relax; gopt.nprocs = P;
    int_t histo[64]; memset(histo, 0, sizeof histo);
    gGs.panel_histo = histo;
    gsh.Gstat = &gGs; gsh.Glu = &gGlu;
    int_t supno[MAXN + 2], xsup[MAXN + 2], xsup_end[MAXN + 2];
    for (int_t i = 0; i <= n + 1; ++i) { supno[i] = EMPTY; xsup[i] = EMPTY; xsup_end[i] = EMPTY; }
    gGlu.supno = supno; gGlu.xsup = xsup; gGlu.xsup_end = xsup_end; gGlu.nsuper = -1;
    gGlu.map_in_sup = intCalloc(n + 1);
    pxgstrf_relax_t *rl = (pxgstrf_relax_t *)SUPERLU_MALLOC((n + 2) * sizeof(pxgstrf_relax_t));
    pxgstrf_relax_snode(n, &gopt, rl);
    ParallelInit(n, rl, &gopt, &gsh);
    SUPERLU_FREE(rl);
    for (int p = 0; p < MAXP; ++p) { memset(&gwk[p], 0, sizeof gwk[p]); gwk[p].cur = EMPTY; gwk[p].phase = p < P ? 0 : 3; }
    memset(gtaken, 0, sizeof gtaken);
    if (hcnt) memset(hset, 0, hcap * sizeof(uint64_t));
    hcnt = 0;
    check_global("initial");
    g_cfg_states = 0;
    explore(0);
    ParallelFinalize(&gsh);
}

int cmd_sched(const case_t *c)
{
    int_t n = cint(c, "n", 5);
    long first = cint(c, "first", 0), count = cint(c, "count", 1L << 40);
    if (n < 1 || n > MAXN) { jo_begin(c); jo_str("error", "n out of range"); jo_end(); return 2; }
    hcap = (size_t)1 << cint(c, "hbits", 22); hset = xcalloc(hcap, sizeof(uint64_t));
    g_cap = cint(c, "cap", 0); g_truncated = 0;
    jo_begin(c);
    jo_int("n", n);
    g_states = g_trans = g_takes = g_pipe_takes = g_maxdepth = g_deadlocks = g_viol = 0; g_first[0] = 0;
    long forests = 0, configs = 0, idx = 0;
    int_t et[MAXN + 1];
    /* enumerate all parent arrays et[j] in (j, n], keep the postordered ones */
    for (int_t j = 0; j < n; ++j) et[j] = j + 1;
    static const int ws[] = {1, 2, 3}, rs[] = {1, 2, 3};
    char sample[256]; sample[0] = 0;
    for (;;) {
        if (postordered(et, n)) {
            if (idx >= first && idx < first + count) {
                ++forests;
                for (int wi = 0; wi < 3 && !g_viol; ++wi) for (int ri = 0; ri < 3 && !g_viol; ++ri) for (int P = 2; P <= 3 && !g_viol; ++P) {
                    if (n >= 7 && P == 3 && (wi + ri) % 2) continue;   /* thinning of the largest level, stated in the evidence */
                    ++configs;
                    run_config(n, et, ws[wi], rs[ri], P);
                    if (g_viol && !sample[0]) { size_t k = 0; k += snprintf(sample + k, sizeof sample - k, "etree="); for (int_t j = 0; j < n; ++j) k += snprintf(sample + k, sizeof sample - k, "%ld,", (long)et[j]); snprintf(sample + k, sizeof sample - k, " w=%d relax=%d P=%d", ws[wi], rs[ri], P); }
                }
            }
            ++idx;
        }
        /* next array (odometer) */
        int_t j = n - 1;
        while (j >= 0) { if (et[j] < n) { et[j]++; break; } et[j] = j + 1; --j; }
        if (j < 0 || g_viol) break;
    }
    jo_int("model_forests", forests); jo_int("model_configs", configs); jo_int("model_states", g_states); jo_int("model_transitions", g_trans); jo_int("model_takes", g_takes);
    jo_int("model_pipe_takes", g_pipe_takes); jo_int("model_maxdepth", g_maxdepth); jo_int("model_truncated_configs", g_truncated);
    if (sample[0]) jo_str("witness", sample);
    jo_end();
    free(hset);
    return 0;
}
