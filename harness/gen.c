/* Seeded matrix generators.  All families build a dense 0/1 pattern first
 * (sizes used by the checks are <= ~2000) and then draw values. */
#include "hx.h"

int_t gen_onesK[64]; int gen_nones;
int_t gen_zerocols[16]; int gen_nzerocols;   /* index set of the last "onesblock" */

static void shuffle(rng_t *r, int_t *p, int_t n)
{
    for (int_t i = 0; i < n; ++i) p[i] = i;
    for (int_t i = n - 1; i > 0; --i) { int_t j = rng_int(r, i + 1); int_t t = p[i]; p[i] = p[j]; p[j] = t; }
}

#define P(i,j) pat[(size_t)(j)*m + (i)]

static double draw_mag(rng_t *r, const char *vals)
{
    if (!strcmp(vals, "hostile")) {
        /* powers of two with many ties and a wide spread: provokes growth and tie-breaking */
        static const double tab[] = {1, 1, 1, 2, 0.5, 4, 0.25, 1, 8, 1024, 1.0/1024, 3, 1};
        return tab[rng_int(r, sizeof tab / sizeof tab[0])];
    }
    if (!strcmp(vals, "int")) return 1 + rng_int(r, 3);
    if (!strcmp(vals, "ones")) return 1.0;
    double v = 0.05 + 0.95 * rng_u01(r);
    return v;
}
static elem_t draw_val(rng_t *r, const char *vals)
{
    double mag = draw_mag(r, vals);
#if IS_COMPLEX
    if (!strcmp(vals, "int") || !strcmp(vals, "hostile") || !strcmp(vals, "ones")) {
        /* gaussian-integer style: axis-aligned so magnitudes stay exact */
        switch (rng_int(r, 4)) {
        case 0: return MKE(mag, 0); case 1: return MKE(-mag, 0);
        case 2: return MKE(0, mag); default: return MKE(0, -mag);
        }
    }
    double th = 6.283185307179586 * rng_u01(r);
    return MKE(mag * cos(th), mag * sin(th));
#else
    return MKE(rng_u01(r) < 0.5 ? -mag : mag, 0);
#endif
}

int gen_matrix(const case_t *c, rng_t *r, csc_t *A)
{
    const char *fam = cstr(c, "fam", "rand");
    const char *vals = cstr(c, "vals", "generic");
    int_t n = cint(c, "n", 10);
    int_t m = cint(c, "m", n);
    double dens = cdbl(c, "dens", 0.1);
    if (n < 0 || m < 0) return -1;
    unsigned char *pat = xcalloc((size_t)m * n + 1, 1);
    int_t *perm = xmalloc((n + m + 1) * sizeof(int_t));
    int planted = 0;

    if (!strcmp(fam, "rand") || !strcmp(fam, "randnd")) {
        /* random pattern with a planted transversal (structurally nonsingular when square) */
        for (int_t j = 0; j < n; ++j)
            for (int_t i = 0; i < m; ++i)
                if (rng_u01(r) < dens) P(i, j) = 1;
        if (!strcmp(fam, "randnd")) {   /* force a zero diagonal where possible */
            for (int_t j = 0; j < n && j < m; ++j) P(j, j) = 0;
        }
        if (m == n && cint(c, "transversal", 1)) {
            shuffle(r, perm, n);
            if (!strcmp(fam, "randnd") && n > 1) {   /* derangement-ish: rotate fixed points */
                for (int_t j = 0; j < n; ++j) if (perm[j] == j) { int_t k = (j + 1) % n; int_t t = perm[j]; perm[j] = perm[k]; perm[k] = t; }
            }
            for (int_t j = 0; j < n; ++j) P(perm[j], j) = 2;
            planted = 1;
        }
    } else if (!strcmp(fam, "band")) {
        int_t bl = cint(c, "bl", 2), bu = cint(c, "bu", 1);
        for (int_t j = 0; j < n; ++j)
            for (int_t i = (j - bu < 0 ? 0 : j - bu); i <= j + bl && i < m; ++i)
                if (i == j || rng_u01(r) < 0.85) P(i, j) = (i == j) ? 2 : 1;
    } else if (!strcmp(fam, "arrow")) {
        int orient = cint(c, "orient", 0);
        for (int_t j = 0; j < n && j < m; ++j) P(j, j) = 2;
        int_t k = orient ? 0 : n - 1;
        for (int_t j = 0; j < n; ++j) { if (k < m) P(k, j) = P(k, j) ? P(k, j) : 1; if (j < m && k < n) P(j, k) = P(j, k) ? P(j, k) : 1; }
    } else if (!strcmp(fam, "grid")) {
        int_t g = (int_t)floor(sqrt((double)n) + 1e-9);
        if (g < 1) g = 1;
        /* n may not be a square: extra nodes get diagonal + link to previous */
        for (int_t v = 0; v < n; ++v) {
            P(v, v) = 2;
            if (v < g * g) {
                int_t x = v % g, y = v / g;
                if (x > 0) P(v - 1, v) = 1;
                if (x < g - 1 && v + 1 < n) P(v + 1, v) = 1;
                if (y > 0) P(v - g, v) = 1;
                if (y < g - 1 && v + g < n) P(v + g, v) = 1;
            } else { P(v - 1, v) = 1; P(v, v - 1) = 1; }
        }
        /* unsymmetric perturbation: drop some off-diagonal entries */
        for (int_t j = 0; j < n; ++j) for (int_t i = 0; i < n; ++i)
            if (i != j && P(i, j) && rng_u01(r) < cdbl(c, "drop", 0.15)) P(i, j) = 0;
    } else if (!strcmp(fam, "chain")) {
        /* bidiagonal: etree of A'A is a path => maximal pipelining */
        int lower = cint(c, "lower", 1);
        for (int_t j = 0; j < n; ++j) {
            P(j, j) = 2;
            if (lower) { if (j + 1 < n) P(j + 1, j) = 1; }
            else { if (j > 0) P(j - 1, j) = 1; }
            if (rng_u01(r) < cdbl(c, "extra", 0.0)) { int_t i = rng_int(r, n); if (!P(i, j)) P(i, j) = 1; }
        }
    } else if (!strcmp(fam, "chainsdiag")) {
        /* nchains tridiagonal blocks of order chainlen followed by 1-by-1 blocks: workers that run down the chains request U storage
           all the time while others sweep through singleton (relaxed) supernodes that only record where the end of U currently is */
        int_t k = cint(c, "nchains", 4), len = cint(c, "chainlen", 100), lo = 0;
        for (int_t b = 0; b < k && lo < n; ++b) {
            int_t hi = lo + len; if (hi > n) hi = n;
            for (int_t j = lo; j < hi; ++j) { P(j, j) = 2; if (j + 1 < hi) { P(j + 1, j) = 1; P(j, j + 1) = 1; } }
            lo = hi;
        }
        for (int_t j = lo; j < n; ++j) P(j, j) = 2;
    } else if (!strcmp(fam, "ring")) {
        /* a symmetric tridiagonal chain coupled to a periodic ring that carries, besides the symmetric neighbour coupling, a
           one-sided (upwind) entry A(i, i-k around the ring): structurally unsymmetric although every row holds exactly as
           many entries as the column of the same index (circulant-like patterns; nothing one-sided near a border) */
        int_t n1 = cint(c, "chainlen", n / 2); if (n1 < 0) n1 = 0; if (n1 > n - 3) n1 = n > 3 ? n - 3 : 0;
        int_t n2 = n - n1, k = cint(c, "ringk", 2); if (n2 > 0) { k %= n2; if (k < 0) k += n2; }
        for (int_t j = 0; j < n1; ++j) { P(j, j) = 2; if (j + 1 < n1) { P(j + 1, j) = 1; P(j, j + 1) = 1; } }
        for (int_t t = 0; t < n2; ++t) {
            int_t i = n1 + t;
            P(i, i) = 2;
            if (n2 > 1) { P(i, n1 + (t + 1) % n2) = 1; P(n1 + (t + 1) % n2, i) = 1; }
            if (n2 > 2 && k > 1) P(i, n1 + (t - k + n2) % n2) = 1;
        }
        if (n1 > 0 && n2 > 0) { P(n1 - 1, n1) = 1; P(n1, n1 - 1) = 1; }
    } else if (!strcmp(fam, "star") || !strcmp(fam, "forest")) {
        /* block diagonal (blocks of size bs, dense-ish or chains) + coupling last column(s) and row(s) */
        int_t bs = cint(c, "bs", 3); if (bs < 1) bs = 1;
        int chainblk = !strcmp(fam, "forest");
        int_t ncpl = cint(c, "ncpl", 1);
        for (int_t b = 0; b * bs < n - ncpl; ++b) {
            int_t lo = b * bs, hi = lo + bs; if (hi > n - ncpl) hi = n - ncpl;
            for (int_t j = lo; j < hi; ++j) {
                P(j, j) = 2;
                if (chainblk) { if (j + 1 < hi) P(j + 1, j) = 1; if (j > lo && rng_u01(r) < 0.5) P(j - 1, j) = 1; }
                else for (int_t i = lo; i < hi; ++i) if (i != j && rng_u01(r) < 0.7) P(i, j) = 1;
            }
            /* couple the last column of the block to the coupling rows */
            for (int_t q = n - ncpl; q < n; ++q) if (q >= 0) { P(q, hi - 1) = 1; if (rng_u01(r) < 0.5) P(lo, q) = 1; }
        }
        for (int_t q = (n - ncpl < 0 ? 0 : n - ncpl); q < n; ++q) {
            P(q, q) = 2;
            for (int_t q2 = n - ncpl; q2 < n; ++q2) if (q2 >= 0 && q2 != q) P(q2, q) = 1;
        }
    } else if (!strcmp(fam, "tree")) {
        /* A = 2I + A(j, parent(j)) for a chosen tree with parent(j) > j: columns j and parent(j) share row j and no
           other pair of columns shares a row, so the graph of A'A is the tree itself and (parents being numbered after
           their children) the column elimination tree IS the tree.  Extra entries A(j, ancestor) keep it. */
        int shape = (int)cint(c, "shape", 0);
        int_t kary = cint(c, "kary", 2); if (kary < 1) kary = 1;
        int_t *par = (int_t *)malloc((size_t)(n + 1) * sizeof(int_t));
        for (int_t j = 0; j < n; ++j) {
            int_t p;
            switch (shape) {
            case 1: p = n - 1; break;                                         /* star                       */
            case 2: p = n - 1 - (n - 2 - j) / kary; break;                    /* complete k-ary (heap order) */
            case 3: p = (j % (kary + 1) == kary) ? j + kary + 1 : (j / (kary + 1)) * (kary + 1) + kary; break; /* caterpillar: k leaves per spine node */
            case 4: { int_t g = n / (kary + 1); if (g < 1) g = 1; p = (j < n - g) ? n - g + j % g : j + 1; break; } /* g stars whose centres form a chain */
            default: p = j + 1 + (int_t)rng_int(r, (uint64_t)(n - 1 - j > 0 ? n - 1 - j : 1)); break;  /* random recursive */
            }
            if (j == n - 1 || p >= n) p = n; if (p <= j) p = j + 1 <= n ? j + 1 : n;
            par[j] = p;
        }
        double xanc = cdbl(c, "xanc", 0.0);
        for (int_t j = 0; j < n && j < m; ++j) {
            P(j, j) = 2;
            if (par[j] < n) P(j, par[j]) = 1;
            for (int_t a = par[j] < n ? par[par[j]] : n; a < n; a = par[a]) if (rng_u01(r) < xanc) P(j, a) = 1;
        }
        free(par);
    } else if (!strcmp(fam, "wilk")) {
        /* Wilkinson's growth pattern: full strict lower triangle, diagonal, full last column (values set below) */
        for (int_t j = 0; j < n; ++j) { P(j, j) = 2; for (int_t i = j + 1; i < m; ++i) P(i, j) = 1; if (j < n - 1) P(j, n - 1) = 1; }
    } else if (!strcmp(fam, "skyline")) {
        /* profile matrix: (dense-ish) lower triangle, and in the upper triangle column c holds rows c-len..c-1 with its own
           len in 0..maxlen: U segments of every length that start in the middle of supernodes and panels */
        double ldens = cdbl(c, "ldens", 1.0); int_t maxlen = cint(c, "maxlen", 6);
        for (int_t j = 0; j < n; ++j) {
            P(j, j) = 2;
            for (int_t i = j + 1; i < m; ++i) if (rng_u01(r) < ldens) P(i, j) = 1;
            int_t len = (int_t)rng_int(r, (uint64_t)maxlen + 1);
            for (int_t i = j - len < 0 ? 0 : j - len; i < j; ++i) P(i, j) = 1;
        }
    } else if (!strcmp(fam, "pendclique")) {
        /* node k with npend pendant neighbours (one entry A(p,k) or A(k,p) each), a clique {k} U D in which the links of k
           are stored only in ROW k (A(k,d) != 0, A(d,k) == 0) unless symstruct, D a full block, and an independent dense
           block that is eliminated last; randomly relabelled.  Structurally unsymmetric inputs on which the symmetric
           (A+A') prediction and the actual column structure of A differ most. */
        int_t npend = cint(c, "npend", 3), nd = cint(c, "nd", 6);
        if (npend + 1 + nd > n) { nd = n - npend - 1; if (nd < 0) { nd = 0; npend = n - 1; } }
        int symstruct = (int)cint(c, "symstruct", 0);
        int_t *lab = (int_t *)malloc((size_t)(n + 1) * sizeof(int_t));
        for (int_t i = 0; i < n; ++i) lab[i] = i;
        if (cint(c, "relabel", 1)) shuffle(r, lab, n);
        int_t k = npend;
        for (int_t p = 0; p < npend; ++p) { if (rng_int(r, 2)) P(lab[k], lab[p]) = 1; else P(lab[p], lab[k]) = 1; }
        for (int_t d = 0; d < nd; ++d) {
            P(lab[k], lab[k + 1 + d]) = 1;
            if (symstruct) P(lab[k + 1 + d], lab[k]) = 1;
            for (int_t e = 0; e < nd; ++e) if (e != d) P(lab[k + 1 + d], lab[k + 1 + e]) = 1;
        }
        for (int_t d = npend + 1 + nd; d < n; ++d) for (int_t e = npend + 1 + nd; e < n; ++e) if (e != d) P(lab[d], lab[e]) = 1;
        for (int_t i = 0; i < n; ++i) P(i, i) = 2;
        free(lab);
    } else if (!strcmp(fam, "blockdiag")) {
        /* independent diagonal blocks: the column etree is a forest with one tree per block */
        int_t bs = cint(c, "bs", 3); if (bs < 1) bs = 1;
        for (int_t lo = 0; lo < n; ) {
            int_t sz = 1 + (int_t)rng_int(r, 2 * bs); if (lo + sz > n) sz = n - lo;
            for (int_t j = lo; j < lo + sz; ++j) for (int_t i = lo; i < lo + sz; ++i) if (i == j || rng_u01(r) < cdbl(c, "bdens", 0.8)) P(i, j) = (i == j) ? 2 : 1;
            lo += sz;
        }
    } else if (!strcmp(fam, "dense")) {
        for (int_t j = 0; j < n; ++j) for (int_t i = 0; i < m; ++i) P(i, j) = (i == j) ? 2 : 1;
    } else if (!strcmp(fam, "bits")) {
        /* explicit 0/1 pattern: bit (i + j*m) of "bits" (up to 62 bits) or hex string "hbits" */
        const char *hb = cstr(c, "hbits", NULL);
        if (hb) {
            size_t L = strlen(hb);
            for (size_t q = 0; q < (size_t)m * n; ++q) {
                size_t nib = q / 4; if (nib >= L) break;
                char ch = hb[L - 1 - nib];
                int v = (ch >= '0' && ch <= '9') ? ch - '0' : (ch >= 'a' && ch <= 'f') ? ch - 'a' + 10 : 0;
                if ((v >> (q % 4)) & 1) pat[q] = 1;
            }
        } else {
            uint64_t bits = strtoull(cstr(c, "bits", "0"), NULL, 0);
            for (int q = 0; q < m * n && q < 64; ++q) if ((bits >> q) & 1) pat[q] = 1;
        }
    } else if (!strcmp(fam, "diag")) {
        for (int_t j = 0; j < n && j < m; ++j) P(j, j) = 2;
    } else if (!strcmp(fam, "svd")) {
        /* dense matrix with prescribed singular values: A = (I-2uu^H) diag(sigma) (I-2vv^H),
           sigma_i = cond^(-i/(n-1)), built in extended precision and rounded once */
        free(pat); free(perm); pat = NULL; perm = NULL;
        ld cond = (ld)cdbl(c, "cond", 100.0);
        int mode = (int)cint(c, "svmode", 0);   /* 0 geometric, 1 one small, 2 one large */
        ref_t *u = xmalloc((n + 1) * sizeof(ref_t)), *v = xmalloc((n + 1) * sizeof(ref_t));
        ld nu = 0, nv = 0;
        for (int_t i = 0; i < n; ++i) {
            u[i] = (ld)rng_sym(r) + (IS_COMPLEX ? CI * (ld)rng_sym(r) : 0);
            v[i] = (ld)rng_sym(r) + (IS_COMPLEX ? CI * (ld)rng_sym(r) : 0);
            nu += creall(u[i] * conjl(u[i])); nv += creall(v[i] * conjl(v[i]));
        }
        nu = sqrtl(nu); nv = sqrtl(nv);
        for (int_t i = 0; i < n; ++i) { u[i] /= nu; v[i] /= nv; }
        ld *sg = xmalloc((n + 1) * sizeof(ld));
        for (int_t i = 0; i < n; ++i) {
            if (mode == 1) sg[i] = (i == n - 1) ? 1.0L / cond : 1.0L;
            else if (mode == 2) sg[i] = (i == 0) ? 1.0L : 1.0L / cond;
            else sg[i] = n > 1 ? powl(cond, -(ld)i / (ld)(n - 1)) : 1.0L;
        }
        /* M = S (I - 2 v v^H)  ->  M_ij = s_i (d_ij - 2 v_i conj(v_j));  A = M - 2 u (u^H M) */
        ref_t *M = xmalloc((size_t)n * n * sizeof(ref_t) + 16), *uhM = xcalloc(n + 1, sizeof(ref_t));
        for (int_t j = 0; j < n; ++j) for (int_t i = 0; i < n; ++i)
            M[(size_t)j * n + i] = sg[i] * ((i == j ? 1.0L : 0.0L) - 2.0L * v[i] * conjl(v[j]));
        for (int_t j = 0; j < n; ++j) { ref_t s = 0; for (int_t i = 0; i < n; ++i) s += conjl(u[i]) * M[(size_t)j * n + i]; uhM[j] = s; }
        A->m = n; A->n = n; A->nnz = n * n;
        A->colptr = xmalloc((n + 1) * sizeof(int_t)); A->rowind = xmalloc(((size_t)n * n + 1) * sizeof(int_t)); A->val = xmalloc(((size_t)n * n + 1) * sizeof(elem_t));
        int_t q2 = 0;
        for (int_t j = 0; j < n; ++j) {
            A->colptr[j] = q2;
            for (int_t i = 0; i < n; ++i) { A->rowind[q2] = i; A->val[q2] = R2E(M[(size_t)j * n + i] - 2.0L * u[i] * uhM[j]); ++q2; }
        }
        A->colptr[n] = q2;
        free(M); free(uhM); free(u); free(v); free(sg);
        goto scaling;
    } else {
        free(pat); free(perm);
        return -2;
    }

    /* --- structural post-processing used by the singular families (C06) and C10 --- */
    {
        long k;
        if ((k = cint(c, "emptycol", -1)) >= 0 && k < n) for (int_t i = 0; i < m; ++i) P(i, k) = 0;
        if ((k = cint(c, "emptyrow", -1)) >= 0 && k < m) for (int_t j = 0; j < n; ++j) P(k, j) = 0;
        if ((k = cint(c, "denserow", -1)) >= 0 && k < m) for (int_t j = 0; j < n; ++j) if (!P(k, j)) P(k, j) = 1;
        if ((k = cint(c, "densecol", -1)) >= 0 && k < n) for (int_t i = 0; i < m; ++i) if (!P(i, k)) P(i, k) = 1;
        long ob = cint(c, "onesblock", 0);   /* isolated rank-1 block of +-1 on a random index set K (exactly singular, exact arithmetic) */
        gen_nones = 0;
        if (ob >= 2 && ob <= n && ob <= 64 && m == n) {
            shuffle(r, perm, n);
            gen_nones = (int)ob;
            for (long q = 0; q < ob; ++q) gen_onesK[q] = perm[q];
            for (long q = 0; q < ob; ++q) {
                int_t k2 = perm[q];
                for (int_t i = 0; i < m; ++i) P(i, k2) = 0;
                for (int_t j = 0; j < n; ++j) P(k2, j) = 0;
            }
            for (long q = 0; q < ob; ++q) for (long q2 = 0; q2 < ob; ++q2) P(perm[q], perm[q2]) = 3;
        }
        long hb = cint(c, "hallblock", 0);   /* isolated Hall violator: h columns and h-1 rows that meet nothing else */
        if (hb >= 2 && hb <= n && m == n) {
            shuffle(r, perm, n);                 /* Kc = perm[0..hb), Kr = perm[0..hb-1) : rows are a subset of the column indices */
            for (long q = 0; q < hb; ++q) for (int_t i = 0; i < m; ++i) P(i, perm[q]) = 0;
            for (long q = 0; q < hb - 1; ++q) for (int_t j = 0; j < n; ++j) P(perm[q], j) = 0;
            for (long q = 0; q < hb; ++q) {
                int any = 0;
                for (long t = 0; t < hb - 1; ++t) if (rng_u01(r) < 0.7) { P(perm[t], perm[q]) = 1; any = 1; }
                if (!any) P(perm[rng_int(r, hb - 1)], perm[q]) = 1;
            }
            for (long t = 0; t < hb - 1; ++t) {      /* no empty row inside the block */
                int any = 0; for (long q = 0; q < hb; ++q) if (P(perm[t], perm[q])) any = 1;
                if (!any) P(perm[t], perm[rng_int(r, hb)]) = 1;
            }
        }
        long h = cint(c, "hall", 0);   /* Hall violator: h columns confined to h-1 rows */
        if (h >= 2 && h <= n && m >= h) {
            shuffle(r, perm, n);           /* choose columns */
            int_t *rows = perm + n; shuffle(r, rows, m);
            for (long q = 0; q < h; ++q) {
                int_t j = perm[q];
                for (int_t i = 0; i < m; ++i) P(i, j) = 0;
                int any = 0;
                for (long t = 0; t < h - 1; ++t) if (rng_u01(r) < 0.7) { P(rows[t], j) = 1; any = 1; }
                if (!any) P(rows[rng_int(r, h - 1)], j) = 1;
            }
        }
    }

    if (cint(c, "symmpat", 0) && m == n)     /* structurally symmetric pattern */
        for (int_t j = 0; j < n; ++j) for (int_t i = 0; i < j; ++i) if (P(i, j) || P(j, i)) { if (!P(i, j)) P(i, j) = 1; if (!P(j, i)) P(j, i) = 1; }
    /* diagonal dominance needs a structurally full diagonal */
    if (cstr(c, "dom", "")[0] && m == n)
        for (int_t j = 0; j < n; ++j) P(j, j) = 2;

    /* --- compress + values --- */
    int_t nnz = 0;
    for (size_t q = 0; q < (size_t)m * n; ++q) if (pat[q]) ++nnz;
    A->m = m; A->n = n; A->nnz = nnz;
    A->colptr = xmalloc((n + 1) * sizeof(int_t));
    A->rowind = xmalloc((nnz + 1) * sizeof(int_t));
    A->val = xmalloc((nnz + 1) * sizeof(elem_t));
    int shufrows = cint(c, "shufrows", 0);     /* unsorted row indices inside columns */
    int_t q = 0;
    for (int_t j = 0; j < n; ++j) {
        A->colptr[j] = q;
        int_t q0 = q;
        for (int_t i = 0; i < m; ++i) if (P(i, j)) {
            A->rowind[q] = i;
            elem_t v = draw_val(r, vals);
            if (P(i, j) == 2 && !strcmp(vals, "generic")) {
                /* transversal / diagonal entries: magnitude in [1,2] */
#if IS_COMPLEX
                double sc = (1.0 + rng_u01(r)) / hypot(v.r, v.i);
                v.r *= sc; v.i *= sc;
#else
                v = (elem_t)((v < 0 ? -1 : 1) * (1.0 + rng_u01(r)));
#endif
            }
            if (P(i, j) == 3) {
                /* s_i * t_j with s, t in {+1,-1} (and +-i for complex), a fixed function of the index */
                int si = (int)((i * 2654435761u) >> 7) & 3, tj = (int)((j * 40503u) >> 3) & 3;
#if IS_COMPLEX
                static const double cr[4] = {1, -1, 0, 0}, ci[4] = {0, 0, 1, -1};
                double ar = cr[si], ai = ci[si], br = cr[tj], bi = ci[tj];
                v = MKE(ar * br - ai * bi, ar * bi + ai * br);
#else
                v = MKE(((si & 1) ? -1.0 : 1.0) * ((tj & 1) ? -1.0 : 1.0), 0);
#endif
            }
            A->val[q] = v;
            ++q;
        }
        if (shufrows) for (int_t a = q - 1; a > q0; --a) {
            int_t b = q0 + rng_int(r, a - q0 + 1);
            int_t ti = A->rowind[a]; A->rowind[a] = A->rowind[b]; A->rowind[b] = ti;
            elem_t tv = A->val[a]; A->val[a] = A->val[b]; A->val[b] = tv;
        }
    }
    A->colptr[n] = q;
    (void)planted;

    /* --- diagonal dominance (vals=dom / domrow): diag := (1+t) * sum |offdiag| --- */
    const char *dom = cstr(c, "dom", "");
    if (dom[0] && m == n) {
        ld *sum = xcalloc(n + 1, sizeof(ld));
        int byrow = !strcmp(dom, "row");
        for (int_t j = 0; j < n; ++j) for (int_t k = A->colptr[j]; k < A->colptr[j + 1]; ++k) {
            int_t i = A->rowind[k]; if (i == j) continue;
            sum[byrow ? i : j] += rabs1(E2R(A->val[k]));
        }
        for (int_t j = 0; j < n; ++j) for (int_t k = A->colptr[j]; k < A->colptr[j + 1]; ++k)
            if (A->rowind[k] == j) {
                double mag = (double)((1.0L + 0.5L * rng_u01(r)) * sum[j] + 1.0L);
                if (!strcmp(vals, "int")) mag = ceil(mag);
#if IS_COMPLEX
                A->val[k] = (rng_u01(r) < 0.5) ? MKE(mag, 0) : MKE(0, mag);
                if (!strcmp(vals, "int")) A->val[k] = MKE(mag, 0);
#else
                A->val[k] = MKE(rng_u01(r) < 0.5 ? mag : -mag, 0);
#endif
            }
        free(sum);
    }

    /* --- stored zeros (numerically zero column / row): zerocol=k, zerorow=k --- */
    {
        long k;
        if ((k = cint(c, "zerocol", -1)) >= 0 && k < n)
            for (int_t t = A->colptr[k]; t < A->colptr[k + 1]; ++t) A->val[t] = MKE(0, 0);
        gen_nzerocols = 0;
        long nz2 = cint(c, "zerocols", 0);      /* several all-zero columns: the first one in A*Pc order must be reported */
        for (long q = 0; q < nz2 && q < 16 && n > 0; ++q) {
            int_t kc = (int_t)rng_int(r, n);
            gen_zerocols[gen_nzerocols++] = kc;
            for (int_t t = A->colptr[kc]; t < A->colptr[kc + 1]; ++t) A->val[t] = MKE(0, 0);
        }
        if ((k = cint(c, "zerorow", -1)) >= 0)
            for (int_t t = 0; t < A->nnz; ++t) if (A->rowind[t] == k) A->val[t] = MKE(0, 0);
        /* dupcol=a,b : column b := column a (values and structure) -> exact numerical singularity */
    }

    if (cint(c, "lapl", 0) && m == n) {
        /* unit-weight, weakly dominant M-matrix ("grounded Laplacian" of the pattern): off-diagonal entries -1, diagonal =
           number of off-diagonal entries of its row (lapl=1) or column (lapl=2), +1 at every 7th vertex.  Magnitudes tie
           exactly all over the elimination, the diagonal stays nonzero: pivot-preference rules are exercised at their
           boundary (every pivot candidate set contains entries equal in magnitude to the diagonal) */
        int byrow = cint(c, "lapl", 0) == 1;
        long *deg = xcalloc(n + 1, sizeof(long));
        for (int_t j = 0; j < n; ++j) for (int_t k = A->colptr[j]; k < A->colptr[j + 1]; ++k) { int_t i = A->rowind[k]; if (i != j) deg[byrow ? i : j]++; }
        for (int_t j = 0; j < n; ++j) for (int_t k = A->colptr[j]; k < A->colptr[j + 1]; ++k) {
            int_t i = A->rowind[k];
            if (i == j) A->val[k] = MKE((double)(deg[j] + ((j % 7) == 0 ? 1 : 0) + (deg[j] == 0 ? 1 : 0)), 0);
            else A->val[k] = MKE(-1, 0);
        }
        free(deg);
    }
    if (!strcmp(fam, "wilk") && m == n) {
        /* 1 on the diagonal and in the last column, -theta below the diagonal (theta in [wtheta - 0.1, wtheta]): element
           growth up to (1+theta)^(n-1) under partial pivoting, so the unrefined solve has a backward error far above u
           and iterative refinement has real work to do */
        double th = cdbl(c, "wtheta", 1.0);
        for (int_t j = 0; j < n; ++j) for (int_t k = A->colptr[j]; k < A->colptr[j + 1]; ++k) {
            int_t i = A->rowind[k];
            if (i == j || j == n - 1) A->val[k] = MKE(1, 0);
            else A->val[k] = MKE(-(th - 0.1 * rng_u01(r)), 0);
        }
    }
    /* unitri=1|2: keep the upper (1) / lower (2) triangle, unit diagonal, off-diagonal entries +-1 (complex: also +-i):
       with the natural ordering every factorization and solve step is exact integer arithmetic, so solutions with
       exactly zero components can be constructed (code that skips zero entries is exercised) */
    if (cint(c, "unitri", 0) && m == n) {
        int up = cint(c, "unitri", 0) == 1;
        int_t q2 = 0;
        for (int_t j = 0; j < n; ++j) {
            int_t b0 = A->colptr[j]; A->colptr[j] = q2; int hasd = 0;
            int_t e0 = A->colptr[j + 1];
            for (int_t k = b0; k < e0; ++k) {
                int_t i = A->rowind[k];
                if (i != j && ((up && i > j) || (!up && i < j))) continue;
                if (i == j) { A->val[q2] = MKE(1, 0); hasd = 1; }
                else { int sgn = rng_int(r, 2) ? 1 : -1; A->val[q2] = (IS_COMPLEX && rng_int(r, 3) == 0) ? MKE(0, sgn) : MKE(sgn, 0); }
                A->rowind[q2++] = i;
            }
            if (!hasd) { /* the families used with this option all have a full diagonal */ }
        }
        A->colptr[n] = q2; A->nnz = q2;
    }
    /* tinycol=k, tinyexp=e: column k is multiplied by 2^e (exactly), e.g. into the subnormal range: every candidate pivot of
       that column is tiny but NOT zero, so the matrix stays nonsingular ("singular" is reserved for exact zeros) */
    if (cint(c, "tinycol", -1) >= 0 && cint(c, "tinycol", -1) < n) {
        int_t kc = cint(c, "tinycol", 0); int e = (int)cint(c, "tinyexp", -1030);
        for (int_t k = A->colptr[kc]; k < A->colptr[kc + 1]; ++k) {
#if IS_COMPLEX
            A->val[k].r = ldexp(A->val[k].r, e); A->val[k].i = ldexp(A->val[k].i, e);
#else
            A->val[k] = (elem_t)ldexp((double)A->val[k], e);
#endif
        }
    }
    /* tinydiag=k (1-based count), tinyexp=e: k diagonal entries (where stored) are multiplied by 2^e: with threshold u = 0 the
       library keeps them as pivots, the factorization has element growth 2^-e and iterative refinement has real work to do */
    if (cint(c, "tinydiag", 0) > 0) {
        int e = (int)cint(c, "tinyexp", -30); int_t left = cint(c, "tinydiag", 0);
        for (int_t j = (n > 2 ? 1 : 0); j < n && left > 0; j += (n > 6 ? 3 : 1))
            for (int_t k = A->colptr[j]; k < A->colptr[j + 1]; ++k) if (A->rowind[k] == j) {
#if IS_COMPLEX
                A->val[k].r = ldexp(A->val[k].r, e); A->val[k].i = ldexp(A->val[k].i, e);
#else
                A->val[k] = (elem_t)ldexp((double)A->val[k], e);
#endif
                --left;
            }
    }
scaling: ;
    /* --- power-of-two row/column scaling (exact) --- */
    int rs = cint(c, "rscale", 0), cs = cint(c, "cscale", 0);
    if (rs || cs) {
        int *re = xcalloc(m + 1, sizeof(int)), *ce = xcalloc(n + 1, sizeof(int));
        for (int_t i = 0; i < m; ++i) re[i] = rs ? (int)rng_int(r, 2 * rs + 1) - rs : 0;
        for (int_t j = 0; j < n; ++j) ce[j] = cs ? (int)rng_int(r, 2 * cs + 1) - cs : 0;
        for (int_t j = 0; j < n; ++j) for (int_t k = A->colptr[j]; k < A->colptr[j + 1]; ++k) {
            int e = re[A->rowind[k]] + ce[j];
#if IS_COMPLEX
            A->val[k].r = ldexp(A->val[k].r, e); A->val[k].i = ldexp(A->val[k].i, e);
#else
            A->val[k] = (elem_t)ldexp((double)A->val[k], e);
#endif
        }
        free(re); free(ce);
    }
    free(pat); free(perm);
    if (getenv("HX_DUMP_MATRIX")) {     /* debugging aid: triplets of the generated matrix */
        FILE *f = fopen(getenv("HX_DUMP_MATRIX"), "w");
        if (f) {
            fprintf(f, "%ld %ld %ld\n", (long)A->m, (long)A->n, (long)A->nnz);
            for (int_t j = 0; j < A->n; ++j) for (int_t k = A->colptr[j]; k < A->colptr[j + 1]; ++k) {
                ref_t v = E2R(A->val[k]);
#if IS_COMPLEX
                fprintf(f, "%ld %ld %.17Lg %.17Lg\n", (long)A->rowind[k], (long)j, creall(v), cimagl(v));
#else
                fprintf(f, "%ld %ld %.17Lg 0\n", (long)A->rowind[k], (long)j, (long double)v);
#endif
            }
            fclose(f);
        }
    }
    return 0;
}

void gen_rhs(rng_t *r, int_t n, int_t nrhs, int_t ldb, elem_t *B, const char *mode)
{
    for (int_t j = 0; j < nrhs; ++j)
        for (int_t i = 0; i < ldb; ++i) {
            if (i < n) {
                if (!strcmp(mode, "int")) B[(size_t)j * ldb + i] = MKE((double)(rng_int(r, 7) - 3), IS_COMPLEX ? (double)(rng_int(r, 7) - 3) : 0);
                else B[(size_t)j * ldb + i] = MKE(rng_sym(r), rng_sym(r));
                /* sparse: most entries exactly zero; unit: one nonzero per column; half: leading or trailing half zero */
                if (!strcmp(mode, "sparse") && rng_u01(r) < 0.75) B[(size_t)j * ldb + i] = MKE(0, 0);
                if (!strcmp(mode, "unit") && i != (int_t)((uint64_t)(j * 7919 + 13) % (uint64_t)(n > 0 ? n : 1))) B[(size_t)j * ldb + i] = MKE(0, 0);
                if (!strcmp(mode, "headzero") && i < n / 2) B[(size_t)j * ldb + i] = MKE(0, 0);
                if (!strcmp(mode, "tailzero") && i >= n / 2) B[(size_t)j * ldb + i] = MKE(0, 0);
            } else B[(size_t)j * ldb + i] = MKE(-7777.0, 7777.0);   /* padding sentinel */
        }
    if (getenv("HX_DUMP_RHS")) {
        FILE *f = fopen(getenv("HX_DUMP_RHS"), "w");
        if (f) { for (int_t i = 0; i < n; ++i) {
            ref_t v = E2R(B[i]);
#if IS_COMPLEX
            fprintf(f, "%.17Lg %.17Lg\n", creall(v), cimagl(v));
#else
            fprintf(f, "%.17Lg 0\n", (long double)v);
#endif
        } fclose(f); }
    }
}

/* exactly singular "onesblock" family: elimination reaches an all-zero column at the second
   block column in A*Pc order, whatever the pivot order */
long ones_expected_info(const int_t *perm_c)
{
    if (gen_nones < 2) return 0;
    long a = -1, b = -1;
    for (int q = 0; q < gen_nones; ++q) {
        long p = perm_c[gen_onesK[q]];
        if (a < 0 || p < a) { b = a; a = p; }
        else if (b < 0 || p < b) b = p;
    }
    return b + 1;
}
