/* Common harness header: precision abstraction + shared declarations. */
#ifndef HX_H
#define HX_H

#define _GNU_SOURCE
#include <stdio.h>
#include <stdlib.h>
#include <string.h>
#include <stdint.h>
#include <math.h>
#include <complex.h>
#undef I               /* the library uses I as an identifier in places */
#undef complex         /* slu_scomplex.h has its own struct named complex */
#define CI _Complex_I

#if defined(PREC_S)
#include "slu_mt_sdefs.h"
typedef float elem_t;
typedef float real_t;
#define PREC_CH 's'
#define IS_COMPLEX 0
#define IS_SINGLE 1
#define FN(x) s##x
#define PFN(x) ps##x
#define SLU_DT SLU_S
#elif defined(PREC_D)
#include "slu_mt_ddefs.h"
typedef double elem_t;
typedef double real_t;
#define PREC_CH 'd'
#define IS_COMPLEX 0
#define IS_SINGLE 0
#define FN(x) d##x
#define PFN(x) pd##x
#define SLU_DT SLU_D
#elif defined(PREC_C)
#include "slu_mt_cdefs.h"
typedef complex elem_t;          /* struct {float r,i} (after #undef of C99 macro below) */
typedef float real_t;
#define PREC_CH 'c'
#define IS_COMPLEX 1
#define IS_SINGLE 1
#define FN(x) c##x
#define PFN(x) pc##x
#define SLU_DT SLU_C
#elif defined(PREC_Z)
#include "slu_mt_zdefs.h"
typedef doublecomplex elem_t;
typedef double real_t;
#define PREC_CH 'z'
#define IS_COMPLEX 1
#define IS_SINGLE 0
#define FN(x) z##x
#define PFN(x) pz##x
#define SLU_DT SLU_Z
#else
#error "PREC_x not defined"
#endif

#include "slu_mt_verif.h"
#ifdef SLUV_TSAN
#define HX_TSAN 1   /* the TSan runtime keeps a background thread */
#else
#define HX_TSAN 0
#endif

typedef long double ld;
typedef long double _Complex ref_t;

#if IS_SINGLE
#define UROUND 5.9604644775390625e-08L      /* 2^-24 */
#else
#define UROUND 1.1102230246251565404e-16L   /* 2^-53 */
#endif
/* unit roundoff used in the componentwise bounds: complex arithmetic carries the
   standard sqrt(2)*gamma_2 .. gamma_4 constants (Higham, ASNA 2nd ed., Lemma 3.5) */
#define UBOUND (IS_COMPLEX ? 4.0L*UROUND : UROUND)

static inline ld gam(ld k) { ld ku = k*UBOUND; return ku < 0.5L ? ku/(1.0L-ku) : 1e300L; }

static inline ref_t E2R(elem_t e) {
#if IS_COMPLEX
    return (ld)e.r + CI*(ld)e.i;
#else
    return (ld)e;
#endif
}
static inline elem_t R2E(ref_t v) {
    elem_t e;
#if IS_COMPLEX
    e.r = (real_t)creall(v); e.i = (real_t)cimagl(v);
#else
    e = (real_t)creall(v);
#endif
    return e;
}
static inline elem_t MKE(double re, double im) {
    elem_t e;
#if IS_COMPLEX
    e.r = (real_t)re; e.i = (real_t)im;
#else
    e = (real_t)re; (void)im;
#endif
    return e;
}
static inline ld rabs(ref_t v) { return cabsl(v); }
/* |re|+|im|: the magnitude the library's c/z routines use (?gsequ, pivoting uses c_abs1/z_abs1?) */
static inline ld rabs1(ref_t v) { return fabsl(creall(v)) + fabsl(cimagl(v)); }

/* ---------- library name mapping ---------- */
#define GSSV        PFN(gssv)
#define GSSVX       PFN(gssvx)
#define GSTRF       PFN(gstrf)
#define GSTRF_INIT  PFN(gstrf_init)
/* underflow unit of the working precision: fl(a op b) = (a op b)(1+delta) + eta, |eta| <= HX_UFL (gradual underflow) */
#if defined(PREC_S) || defined(PREC_C)
#define HX_UFL ((long double)1.401298464324817e-45L)
#else
#define HX_UFL ((long double)4.9406564584124654e-324L)
#endif
#define GSTRS       FN(gstrs)
#define GSRFS       FN(gsrfs)
#define GSCON       FN(gscon)
#define GSEQU       FN(gsequ)
#define LAQGS       FN(laqgs)
#define LANGS       FN(langs)
#if defined(PREC_S)
#define SP_GEMV sp_sgemv
#define SP_GEMM sp_sgemm
#define SP_TRSV sp_strsv
#elif defined(PREC_D)
#define SP_GEMV sp_dgemv
#define SP_GEMM sp_dgemm
#define SP_TRSV sp_dtrsv
#elif defined(PREC_C)
#define SP_GEMV sp_cgemv
#define SP_GEMM sp_cgemm
#define SP_TRSV sp_ctrsv
#else
#define SP_GEMV sp_zgemv
#define SP_GEMM sp_zgemm
#define SP_TRSV sp_ztrsv
#endif
#define PIVOTGROWTH FN(PivotGrowth)
#define CREATE_COMPCOL   FN(Create_CompCol_Matrix)
#define CREATE_COMPROW_AS_NR FN(Create_CompCol_Matrix)
#define CREATE_DENSE     FN(Create_Dense_Matrix)
#define COPY_COMPCOL     FN(Copy_CompCol_Matrix)
#define CREATE_PERMUTED  FN(Create_CompCol_Permuted)
#define COMPROW_TO_COMPCOL FN(CompRow_to_CompCol)
#define READHB      FN(readhb)
#define READRB      FN(readrb)
#define READMT      FN(readmt)
#if defined(PREC_S)
#define QUERYSPACE superlu_sQuerySpace
#elif defined(PREC_D)
#define QUERYSPACE superlu_dQuerySpace
#elif defined(PREC_C)
#define QUERYSPACE superlu_cQuerySpace
#else
#define QUERYSPACE superlu_zQuerySpace
#endif

/* ---------- case (key=value) ---------- */
#define CASE_MAXKV 96
typedef struct {
    int nkv;
    char *k[CASE_MAXKV];
    char *v[CASE_MAXKV];
    char *line;     /* owned copy */
} case_t;
int   case_parse(case_t *c, const char *line);
void  case_free(case_t *c);
long  cint(const case_t *c, const char *k, long dflt);
double cdbl(const case_t *c, const char *k, double dflt);
const char *cstr(const case_t *c, const char *k, const char *dflt);

/* ---------- JSON output ---------- */
void jo_begin(const case_t *c);
void jo_int(const char *k, long long v);
void jo_dbl(const char *k, double v);
void jo_str(const char *k, const char *v);
void jo_raw(const char *k, const char *rawjson);
void jo_fail(const char *key, const char *fmt, ...);   /* records a violation (first kept as key) */
int  jo_nfail(void);
void jo_end(void);
void jo_quiet(int q);    /* suppress value output (failures are still recorded) */

/* ---------- PRNG ---------- */
typedef struct { uint64_t s; } rng_t;
static inline uint64_t rng_next(rng_t *r) {
    uint64_t z = (r->s += 0x9e3779b97f4a7c15ULL);
    z = (z ^ (z >> 30)) * 0xbf58476d1ce4e5b9ULL;
    z = (z ^ (z >> 27)) * 0x94d049bb133111ebULL;
    return z ^ (z >> 31);
}
static inline double rng_u01(rng_t *r) { return (rng_next(r) >> 11) * (1.0/9007199254740992.0); }
static inline long rng_int(rng_t *r, long n) { return n <= 0 ? 0 : (long)(rng_next(r) % (uint64_t)n); }
static inline double rng_sym(rng_t *r) { return 2.0*rng_u01(r) - 1.0; }

/* ---------- sparse matrix held by the harness ---------- */
typedef struct {
    int_t m, n, nnz;
    int_t *colptr;   /* n+1 */
    int_t *rowind;   /* nnz */
    elem_t *val;     /* nnz */
} csc_t;
void csc_free(csc_t *A);
csc_t csc_clone(const csc_t *A);
csc_t csc_transpose(const csc_t *A, int conj);
ref_t *csc_dense(const csc_t *A);            /* m x n column-major (ref) */
uint64_t fnv(const void *p, size_t n, uint64_t h);
#define FNV0 1469598103934665603ULL
uint64_t csc_hash(const csc_t *A);

/* generators (gen.c): returns 0 on success */
int gen_matrix(const case_t *c, rng_t *r, csc_t *A);
extern int_t gen_onesK[64]; extern int gen_nones;
extern int_t gen_zerocols[16]; extern int gen_nzerocols;
long ones_expected_info(const int_t *perm_c);
void gen_rhs(rng_t *r, int_t n, int_t nrhs, int_t ldb, elem_t *B, const char *mode);

/* ---------- sp_ienv / xerbla overrides (ov.c) ---------- */
extern int_t hx_ienv[9];           /* index 1..8 */
void hx_ienv_defaults(void);
void hx_ienv_from_case(const case_t *c);
extern int   hx_xerbla_count;
extern char  hx_xerbla_name[64];
extern int   hx_xerbla_info;
extern int   hx_xerbla_log[16];
extern int   hx_abort_mode;        /* 0: print + exit(3) ; 1: longjmp */

/* ---------- event monitor (mon_events.c) ---------- */
typedef struct {
    uint64_t seq; int kind; int tid; long a, b, c, d, e, f;
} ev_t;
void   mon_reset(void);                  /* clears logs, installs callbacks */
void   mon_enable(int events, uint64_t pert_seed, int pert_mode, int pert_level, int nprocs);
void   mon_disable(void);
long   mon_check_work(const ev_t *ev, size_t nev, const void *ws, long lw, const char *key);
long   mon_check_work_vs(const ev_t *ev, size_t nev, const void *const *ptrs, const size_t *lens, const char *const *names, int cnt, const char *key);
void   mon_watch_start(void);     /* persistent deadlock-watch thread (counted in hx_extra_threads) */
extern int hx_extra_threads; extern long hx_cur_case_id;
size_t mon_collect(ev_t **out);          /* merged + sorted by seq; caller frees */
int    mon_threads_seen(void);
void   mon_slots_check_report(void);     /* adds slot-bound failures to the json */
long   mon_slot_allocs(void);
long   mon_perturbs(void);
long   mon_swaps(void);
long   mon_sched_none(void);
/* analysis over a merged log; etree may be NULL (then scheduler-contract checks are skipped) */
typedef struct {
    long n_events, panels, relaxed_panels, pipelined_takes, dad_takes, waits_blocked, wait_points,
         busy_updates, done_updates, prunes, prune_swaps, xchg, threads_with_panels,
         nsuper_order_mismatch, sub_reads, prune_overlap_prune, prune_overlap_subread,
         max_tail, sched_none, dynsetmaps;
} evstats_t;
void mon_analyze(const ev_t *ev, size_t nev, int_t n, const int_t *etree, const int_t *col_to_sup_fst,
                 int nprocs, evstats_t *st);
void mon_dump(const ev_t *ev, size_t nev, const char *path);

/* ---------- reference / oracles (ref.c) ---------- */
typedef struct {
    int_t n;
    ref_t *L;   /* n x n, unit lower (diag = 1) in Pr*A*Pc index space */
    ref_t *U;   /* n x n upper */
    long nnzL, nnzU, nsuper, maxsup;
} lud_t;
/* structural validation of L (SCP) / U (NCP) / perms; returns #problems, records via jo_fail(prefix..) */
int  validate_LU(const SuperMatrix *L, const SuperMatrix *U, const int_t *perm_r, const int_t *perm_c,
                 int_t n, const char *keyprefix, long *nsuper_out, long *maxsup_out);
int  walk_LU(const SuperMatrix *L, const SuperMatrix *U, int_t n, const char *keyprefix);
int  lud_extract(const SuperMatrix *L, const SuperMatrix *U, int_t n, lud_t *out);
void lud_free(lud_t *d);
/* E = Pr*G*Pc - L*U check; W=|L||U| returned (n x n, caller frees) ; returns max ratio E/bound */
ld   check_reconstruction(const ref_t *G /*n x n dense*/, const lud_t *d, const int_t *perm_r,
                          const int_t *perm_c, ld **Wout, ld *growth_out, const char *key);
ld   check_multipliers(const lud_t *d, ld thresh_u, const char *key);
int  is_perm(const int_t *p, int_t n);
/* residual check for op(G) X = B with bound gamma(3n) * Wop |X| ; W is |L||U| in factor index space */
ld   check_residual(const ref_t *G, int_t n, int trans /*0:N 1:T 2:C*/, const elem_t *X, int_t ldx,
                    const elem_t *B0, int_t ldb, int_t nrhs, const ld *W, const int_t *perm_r,
                    const int_t *perm_c, ld gamma_k, const char *key);
/* dense extended-precision LU solve with partial pivoting; returns 0 ok, else singular */
int  ref_solve(const ref_t *A, int_t n, ref_t *X /*in: B out: X*/, int_t nrhs);
int  ref_inverse(const ref_t *A, int_t n, ref_t *Ainv);
long struct_rank_prefix(const csc_t *G, const int_t *perm_c); /* min k with structural rank of first k cols of G*Pc < k, or 0 */

/* ---------- misc ---------- */
int  count_tasks(void);
int  count_tasks_settled(int expect);
int  count_fds(void);
size_t heap_bytes(void);
int heap_precise(void);   /* 1 when the sanitizer's allocator statistics are available */
double now_s(void);
void *xmalloc(size_t n);
void *xcalloc(size_t n, size_t s);

/* command entry points */
typedef int (*cmd_fn)(const case_t *c);
int cmd_gssv(const case_t *c);
int cmd_gstrf(const case_t *c);
int cmd_sched(const case_t *c);

#endif
