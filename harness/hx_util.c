/* case parsing, JSON output, misc helpers */
#include "hx.h"
#include <stdarg.h>
#include <dirent.h>
#include <time.h>

void *xmalloc(size_t n) { void *p = malloc(n ? n : 1); if (!p) { fprintf(stderr, "harness: out of memory\n"); exit(4);} return p; }
void *xcalloc(size_t n, size_t s) { void *p = calloc(n ? n : 1, s ? s : 1); if (!p) { fprintf(stderr, "harness: out of memory\n"); exit(4);} return p; }

int case_parse(case_t *c, const char *line)
{
    c->nkv = 0;
    c->line = strdup(line);
    char *p = c->line;
    while (*p) {
        while (*p == ' ' || *p == '\t' || *p == '\n' || *p == '\r') ++p;
        if (!*p) break;
        char *k = p;
        while (*p && *p != '=' && *p != ' ' && *p != '\n') ++p;
        if (*p != '=') { /* bare token */
            if (*p) *p++ = 0;
            continue;
        }
        *p++ = 0;
        char *v = p;
        while (*p && *p != ' ' && *p != '\t' && *p != '\n' && *p != '\r') ++p;
        if (*p) *p++ = 0;
        if (c->nkv < CASE_MAXKV) { c->k[c->nkv] = k; c->v[c->nkv] = v; c->nkv++; }
    }
    return c->nkv;
}
void case_free(case_t *c) { free(c->line); c->line = NULL; c->nkv = 0; }
const char *cstr(const case_t *c, const char *k, const char *d)
{
    for (int i = 0; i < c->nkv; ++i) if (!strcmp(c->k[i], k)) return c->v[i];
    return d;
}
long cint(const case_t *c, const char *k, long d)
{
    const char *v = cstr(c, k, NULL);
    return v ? strtol(v, NULL, 0) : d;
}
double cdbl(const case_t *c, const char *k, double d)
{
    const char *v = cstr(c, k, NULL);
    return v ? strtod(v, NULL) : d;
}

/* ---- JSON line builder ---- */
FILE *hx_jout;
static char  *jb; static size_t jlen, jcap; static int jfirst; static int jfails;
static char   jfirstkey[256];
static char  *jfaillist; static size_t jfl_len, jfl_cap;
static void jputs(const char *s)
{
    size_t l = strlen(s);
    if (jlen + l + 1 > jcap) { jcap = (jcap + l + 1) * 2; jb = realloc(jb, jcap); }
    memcpy(jb + jlen, s, l + 1); jlen += l;
}
static int jquiet;
void jo_quiet(int q) { jquiet = q; }
static void jkey(const char *k)
{
    if (!jfirst) jputs(","); jfirst = 0;
    jputs("\""); jputs(k); jputs("\":");
}
static void jesc(const char *v)
{
    char tmp[8];
    jputs("\"");
    for (; *v; ++v) {
        unsigned char ch = (unsigned char)*v;
        if (ch == '"' || ch == '\\') { tmp[0] = '\\'; tmp[1] = ch; tmp[2] = 0; jputs(tmp); }
        else if (ch < 0x20) { snprintf(tmp, sizeof tmp, "\\u%04x", ch); jputs(tmp); }
        else { tmp[0] = ch; tmp[1] = 0; jputs(tmp); }
    }
    jputs("\"");
}
void jo_begin(const case_t *c)
{
    /* capacity is reserved up front so that recording values or failures later never changes the live heap
       (the leak checks compare heap sizes across calls) */
    if (jcap < 131072) { jcap = 131072; jb = realloc(jb, jcap); }
    if (jfl_cap < 32768) { jfl_cap = 32768; jfaillist = realloc(jfaillist, jfl_cap); }
    jlen = 0; jfirst = 1; jfails = 0; jfirstkey[0] = 0; jfl_len = 0;
    if (jfaillist) jfaillist[0] = 0;
    jputs("{");
    jo_int("id", cint(c, "id", -1));
    jo_str("cmd", cstr(c, "cmd", "?"));
    char p[2] = { PREC_CH, 0 };
    jo_str("prec", p);
}
void jo_int(const char *k, long long v) { char b[64]; if (jquiet) return; jkey(k); snprintf(b, sizeof b, "%lld", v); jputs(b); }
void jo_dbl(const char *k, double v)
{
    char b[64]; if (jquiet) return; jkey(k);
    if (isnan(v)) jputs("\"nan\"");
    else if (isinf(v)) jputs(v > 0 ? "\"inf\"" : "\"-inf\"");
    else { snprintf(b, sizeof b, "%.6g", v); jputs(b); }
}
void jo_str(const char *k, const char *v) { if (jquiet) return; jkey(k); jesc(v); }
void jo_raw(const char *k, const char *raw) { if (jquiet) return; jkey(k); jputs(raw); }
void jo_fail(const char *key, const char *fmt, ...)
{
    char msg[512];
    va_list ap; va_start(ap, fmt); vsnprintf(msg, sizeof msg, fmt, ap); va_end(ap);
    ++jfails;
    if (jfails <= 12) {
        size_t need = strlen(key) + strlen(msg) + 64;
        if (jfl_len + need > jfl_cap) { jfl_cap = (jfl_cap + need) * 2; jfaillist = realloc(jfaillist, jfl_cap); }
        /* element {"key":..,"msg":..} appended to the preallocated list */
        char el[1400]; size_t k = 0;
        k += snprintf(el + k, sizeof el - k, "%s{\"key\":\"", jfl_len ? "," : "");
        for (const char *q = key; *q && k < sizeof el - 8; ++q) { if (*q == '"' || *q == '\\') el[k++] = '\\'; if ((unsigned char)*q >= 0x20) el[k++] = *q; }
        k += snprintf(el + k, sizeof el - k, "\",\"msg\":\"");
        for (const char *q = msg; *q && k < sizeof el - 8; ++q) { if (*q == '"' || *q == '\\') el[k++] = '\\'; if ((unsigned char)*q >= 0x20) el[k++] = *q; else el[k++] = ' '; }
        k += snprintf(el + k, sizeof el - k, "\"}");
        if (jfl_len + k + 1 < jfl_cap) { memcpy(jfaillist + jfl_len, el, k + 1); jfl_len += k; }
    }
}
int jo_nfail(void) { return jfails; }
void jo_end(void)
{
    jo_int("nfail", jfails);
    jkey("fails"); jputs("["); if (jfl_len) jputs(jfaillist); jputs("]");
    jputs("}\n");
    fputs(jb, hx_jout ? hx_jout : stdout);
    fflush(hx_jout ? hx_jout : stdout);
}

/* ---- misc ---- */
static int count_dir(const char *path)
{
    DIR *d = opendir(path); int n = 0; struct dirent *e;
    if (!d) return -1;
    while ((e = readdir(d))) if (e->d_name[0] != '.') ++n;
    closedir(d);
    return n;
}
int count_tasks(void) { return count_dir("/proc/self/task"); }
/* pthread_join returns when the kernel clears the thread's tid word, slightly before the task
   disappears from /proc: give an exiting task up to 200 ms to vanish before counting it */
int count_tasks_settled(int expect)
{
    int k = count_tasks();
    for (int i = 0; i < 200 && k != expect; ++i) {
        struct timespec ts = { 0, 1000000 };
        nanosleep(&ts, NULL);
        k = count_tasks();
    }
    return k;
}
int count_fds(void) { return count_dir("/proc/self/fd") - 1; /* minus the dirfd itself */ }
double now_s(void) { struct timespec ts; clock_gettime(CLOCK_MONOTONIC, &ts); return ts.tv_sec + 1e-9*ts.tv_nsec; }

uint64_t fnv(const void *p, size_t n, uint64_t h)
{
    const unsigned char *b = p;
    for (size_t i = 0; i < n; ++i) { h ^= b[i]; h *= 1099511628211ULL; }
    return h;
}

void csc_free(csc_t *A) { free(A->colptr); free(A->rowind); free(A->val); memset(A, 0, sizeof *A); }
csc_t csc_clone(const csc_t *A)
{
    csc_t B = *A;
    B.colptr = xmalloc((A->n + 1) * sizeof(int_t)); memcpy(B.colptr, A->colptr, (A->n + 1) * sizeof(int_t));
    B.rowind = xmalloc((A->nnz + 1) * sizeof(int_t)); memcpy(B.rowind, A->rowind, A->nnz * sizeof(int_t));
    B.val = xmalloc((A->nnz + 1) * sizeof(elem_t)); memcpy(B.val, A->val, A->nnz * sizeof(elem_t));
    return B;
}
csc_t csc_transpose(const csc_t *A, int conj)
{
    csc_t T; T.m = A->n; T.n = A->m; T.nnz = A->nnz;
    T.colptr = xcalloc(T.n + 2, sizeof(int_t));
    T.rowind = xmalloc((T.nnz + 1) * sizeof(int_t));
    T.val = xmalloc((T.nnz + 1) * sizeof(elem_t));
    for (int_t k = 0; k < A->nnz; ++k) T.colptr[A->rowind[k] + 1]++;
    for (int_t i = 0; i < T.n; ++i) T.colptr[i + 1] += T.colptr[i];
    int_t *next = xmalloc((T.n + 1) * sizeof(int_t));
    memcpy(next, T.colptr, (T.n + 1) * sizeof(int_t));
    for (int_t j = 0; j < A->n; ++j)
        for (int_t k = A->colptr[j]; k < A->colptr[j + 1]; ++k) {
            int_t q = next[A->rowind[k]]++;
            T.rowind[q] = j;
            T.val[q] = A->val[k];
#if IS_COMPLEX
            if (conj) T.val[q].i = -T.val[q].i;
#endif
        }
    free(next);
    (void)conj;
    return T;
}
ref_t *csc_dense(const csc_t *A)
{
    ref_t *D = xcalloc((size_t)A->m * A->n, sizeof(ref_t));
    for (int_t j = 0; j < A->n; ++j)
        for (int_t k = A->colptr[j]; k < A->colptr[j + 1]; ++k)
            D[(size_t)j * A->m + A->rowind[k]] += E2R(A->val[k]);
    return D;
}
uint64_t csc_hash(const csc_t *A)
{
    uint64_t h = FNV0;
    h = fnv(&A->m, sizeof A->m, h); h = fnv(&A->n, sizeof A->n, h);
    h = fnv(A->colptr, (A->n + 1) * sizeof(int_t), h);
    h = fnv(A->rowind, A->nnz * sizeof(int_t), h);
    h = fnv(A->val, A->nnz * sizeof(elem_t), h);
    return h;
}

/* live heap bytes: the sanitizer's own count when built with ASan, mallinfo2 otherwise */
#include <malloc.h>
extern size_t __sanitizer_get_current_allocated_bytes(void) __attribute__((weak));
int heap_precise(void) { return __sanitizer_get_current_allocated_bytes != 0; }
size_t heap_bytes(void)
{
    if (__sanitizer_get_current_allocated_bytes) return __sanitizer_get_current_allocated_bytes();
    struct mallinfo2 mi = mallinfo2();
    return mi.uordblks + mi.hblkhd;
}
