#include "mon_alloc.h"
#include <stdlib.h>
#include <stdatomic.h>

static _Atomic long g_count, g_failed, g_fail_from, g_fail_size, g_live, g_maxreq;

void *sluv_malloc(size_t size)
{
    long k = atomic_fetch_add(&g_count, 1) + 1;
    long f = atomic_load(&g_fail_from);
    if (f > 0 && k >= f) { atomic_fetch_add(&g_failed, 1); return NULL; }
    long fs = atomic_load(&g_fail_size);
    long mr = atomic_load(&g_maxreq); while ((long)size > mr && !atomic_compare_exchange_weak(&g_maxreq, &mr, (long)size)) { }
    if (fs > 0 && (long)size >= fs) { atomic_fetch_add(&g_failed, 1); return NULL; }     /* size-dependent refusal: big requests fail, small ones succeed */
    void *p = malloc(size);
    if (p) atomic_fetch_add(&g_live, 1);
    return p;
}
void sluv_free(void *p) { if (p) atomic_fetch_add(&g_live, -1); free(p); }
void sluv_alloc_fail_size(long bytes) { atomic_store(&g_fail_size, bytes); }
long sluv_alloc_live(void) { return atomic_load(&g_live); }
long sluv_alloc_maxreq(void) { return atomic_load(&g_maxreq); }
void sluv_alloc_reset(void) { atomic_store(&g_count, 0); atomic_store(&g_failed, 0); atomic_store(&g_fail_from, 0); atomic_store(&g_fail_size, 0); atomic_store(&g_maxreq, 0); }
void sluv_alloc_fail_from(long k) { atomic_store(&g_fail_from, k); }
long sluv_alloc_count(void) { return atomic_load(&g_count); }
long sluv_alloc_failed(void) { return atomic_load(&g_failed); }
