#include "mon_alloc.h"
#include <stdlib.h>
#include <stdatomic.h>

static _Atomic long g_count, g_failed, g_fail_from;

void *sluv_malloc(size_t size)
{
    long k = atomic_fetch_add(&g_count, 1) + 1;
    long f = atomic_load(&g_fail_from);
    if (f > 0 && k >= f) { atomic_fetch_add(&g_failed, 1); return NULL; }
    return malloc(size);
}
void sluv_free(void *p) { free(p); }
void sluv_alloc_reset(void) { atomic_store(&g_count, 0); atomic_store(&g_failed, 0); atomic_store(&g_fail_from, 0); }
void sluv_alloc_fail_from(long k) { atomic_store(&g_fail_from, k); }
long sluv_alloc_count(void) { return atomic_load(&g_count); }
long sluv_alloc_failed(void) { return atomic_load(&g_failed); }
