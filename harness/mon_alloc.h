/* Counting / failing allocator behind the library's documented USER_MALLOC / USER_FREE
 * override points (only the *_um build variants route the library's requests here). */
#ifndef MON_ALLOC_H
#define MON_ALLOC_H
#include <stddef.h>
void *sluv_malloc(size_t size);
void  sluv_free(void *p);
void  sluv_alloc_reset(void);
void  sluv_alloc_fail_from(long k);   /* request number k (1-based) and every later one return NULL; 0 = never */
long  sluv_alloc_count(void);
long  sluv_alloc_failed(void);
void  sluv_alloc_fail_size(long bytes);
long  sluv_alloc_live(void);
long  sluv_alloc_maxreq(void);
#endif
