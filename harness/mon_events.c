/* Event recorder, schedule perturbation, slot monitor and the offline checker
 * over the merged event log (C03 / C04 / C05 / C09 cause-level observations). */
#include "hx.h"
#include <pthread.h>
#include <stdatomic.h>
#include <sched.h>
#include <unistd.h>
#include <time.h>

typedef struct tbuf {
    ev_t *ev; size_t n, cap;
    struct tbuf *next;
    int tid;
    rng_t rng;
    long perturbs, swaps, sched_none;
    int started, last_none;
} tbuf_t;

static __thread tbuf_t *tls;
static tbuf_t *all_bufs;
static pthread_mutex_t all_lock = PTHREAD_MUTEX_INITIALIZER;
static _Atomic uint64_t g_seq;
static _Atomic int g_ntid;
static int g_events_on, g_pert_mode, g_pert_level, g_nprocs, g_nprocs_real;
static volatile int g_watch_active;
int hx_extra_threads;
long hx_cur_case_id = -1;
static _Atomic int g_arrived;
static uint64_t g_pert_seed;

/* slot snapshot (master thread, before workers start) */
static long  g_slot_n = -1, g_slot_nextpos; static int g_slot_dynamic;
static long *g_slot_map;

static tbuf_t *tls_init(void)
{
    tbuf_t *t = calloc(1, sizeof *t);
    t->tid = atomic_fetch_add(&g_ntid, 1);
    t->rng.s = g_pert_seed * 0x9e3779b97f4a7c15ULL + 0x1234567ULL * (uint64_t)(t->tid + 1);
    pthread_mutex_lock(&all_lock);
    t->next = all_bufs; all_bufs = t;
    pthread_mutex_unlock(&all_lock);
    tls = t;
    return t;
}

static void event_cb(int kind, long a, long b, long c, long d, long e, long f)
{
    if (!g_events_on) return;
    if (g_events_on == 2 && kind != SLUV_E_WORK_ALLOC && kind != SLUV_E_WORK_FREE) return;
    tbuf_t *t = tls ? tls : tls_init();
    if (kind == SLUV_E_SCHED && b < 0) {
        /* idle scheduler polls: count all of them, log only the first of a streak */
        t->sched_none++;
        if (t->last_none) return;
        t->last_none = 1;
    } else if (kind == SLUV_E_SCHED) t->last_none = 0;
    if (t->n == t->cap) { t->cap = t->cap ? t->cap * 2 : 1024; t->ev = realloc(t->ev, t->cap * sizeof(ev_t)); }
    ev_t *x = &t->ev[t->n++];
    if (kind == SLUV_E_PRUNE_BEGIN || kind == SLUV_E_PRUNE_END) f = t->swaps;
    x->kind = kind; x->tid = t->tid; x->a = a; x->b = b; x->c = c; x->d = d; x->e = e; x->f = f;
    x->seq = atomic_fetch_add(&g_seq, 1);   /* taken last: the event is "logged" at this instant */
}

static void nap_us(long us)
{
    struct timespec ts = { us / 1000000, (us % 1000000) * 1000 };
    nanosleep(&ts, NULL);
}

static void perturb_cb(int site)
{
    tbuf_t *t = tls ? tls : tls_init();
    if (site == SLUV_Y_MID_SWAP) t->swaps++;
    if (!g_pert_mode) return;
    if (site == SLUV_Y_LOOP_TOP && !t->started) {
        /* start barrier: let all workers reach the scheduler together (bounded wait) */
        t->started = 1;
        atomic_fetch_add(&g_arrived, 1);
        double t0 = now_s();
        while (atomic_load(&g_arrived) < g_nprocs && now_s() - t0 < 0.002) sched_yield();
    }
    uint64_t r = rng_next(&t->rng);
    unsigned p = (unsigned)(r & 1023);          /* 0..1023 */
    long lvl = g_pert_level > 0 ? g_pert_level : 1;
    switch (g_pert_mode) {
    case 1: /* light: mostly yields, occasional short sleeps, everywhere */
        if (p < 200u * lvl) { sched_yield(); t->perturbs++; }
        else if (p < 230u * lvl) { nap_us(1 + (long)((r >> 10) % 200)); t->perturbs++; }
        break;
    case 2: /* heavy around release / prune / done */
        if (site == SLUV_Y_BEFORE_RELEASE || site == SLUV_Y_AFTER_RELEASE || site == SLUV_Y_BEFORE_PRUNE ||
            site == SLUV_Y_BEFORE_DONE || site == SLUV_Y_AFTER_PIVOT || site == SLUV_Y_SCHED_EXIT) {
            if (p < 300u * lvl) { nap_us(1 + (long)((r >> 10) % 1500)); t->perturbs++; }
            else if (p < 600u) { sched_yield(); t->perturbs++; }
        }
        break;
    case 3: /* prune windows: stretch pruning so that it overlaps other work */
        if (site == SLUV_Y_MID_SWAP || site == SLUV_Y_PRUNE_SCAN) { nap_us(20 + (long)((r >> 10) % 300)); t->perturbs++; }
        else if (site == SLUV_Y_BEFORE_PRUNE && p < 400u * lvl) { nap_us(1 + (long)((r >> 10) % 800)); t->perturbs++; }
        else if (site == SLUV_Y_SUB_READ && p < 300u) { nap_us(1 + (long)((r >> 10) % 100)); t->perturbs++; }
        break;
    case 4: /* supernode numbering vs subscript allocation */
        if (site == SLUV_Y_NSUPER_LSUB || site == SLUV_Y_LSUB_FILL) { if (p < 600u) { nap_us(1 + (long)((r >> 10) % 400)); t->perturbs++; } }
        else if (p < 60u * lvl) { sched_yield(); t->perturbs++; }
        break;
    case 5: /* scheduler: long sleeps at scheduler exit and before release (C04) */
        if (site == SLUV_Y_SCHED_EXIT || site == SLUV_Y_BEFORE_RELEASE || site == SLUV_Y_LOOP_TOP) {
            if (p < 150u * lvl) { nap_us(1 + (long)((r >> 10) % 5000)); t->perturbs++; }
        }
        break;
    case 7: /* a thread preempted between carving its work array from the user's buffer and re-aligning it */
        if (site == SLUV_Y_WORK_ALIGN) { nap_us(50 + (long)((r >> 10) % 500)); t->perturbs++; }
        else if (p < 40u * lvl) { sched_yield(); t->perturbs++; }
        break;
    case 6: /* a thread preempted between the two stores of a partition swap */
        if (site == SLUV_Y_MID_SWAP && p < 500u) { nap_us(300 + (long)((r >> 10) % 2000)); t->perturbs++; }
        else if (site == SLUV_Y_BEFORE_PRUNE && p < 300u) { nap_us(1 + (long)((r >> 10) % 300)); t->perturbs++; }
        break;
    default: break;
    }
}

static void slots_cb(long n, const void *map, int isize, int dynamic, long nextpos)
{
    free(g_slot_map);
    g_slot_map = malloc((n + 2) * sizeof(long));
    for (long j = 0; j <= n; ++j)
        g_slot_map[j] = (isize == 8) ? (long)((const long long *)map)[j] : (long)((const int *)map)[j];
    g_slot_n = n; g_slot_dynamic = dynamic; g_slot_nextpos = nextpos;
}

void mon_reset(void)
{
    pthread_mutex_lock(&all_lock);
    /* called from the (single) master thread while no worker exists: every buffer belongs to a dead
       worker or to the master itself */
    for (tbuf_t *t = all_bufs; t; ) { tbuf_t *nx = t->next; free(t->ev); free(t); t = nx; }
    all_bufs = NULL; tls = NULL;
    atomic_store(&g_ntid, 0);
    atomic_store(&g_arrived, 0);
    pthread_mutex_unlock(&all_lock);
    atomic_store(&g_seq, 1);
    g_slot_n = -1;
    sluv_event_cb = event_cb;
    sluv_perturb_cb = perturb_cb;
    sluv_slots_cb = slots_cb;
}
void mon_enable(int events, uint64_t pert_seed, int pert_mode, int pert_level, int nprocs)
{
    g_nprocs = nprocs > 64 ? 64 : nprocs;
    g_nprocs_real = nprocs;
    g_watch_active = (events == 1 && nprocs >= 1);
    g_events_on = events; g_pert_seed = pert_seed; g_pert_mode = pert_mode; g_pert_level = pert_level;
    /* threads are created per factorization: fresh tls each time; old buffers are kept (reset) */
}
void mon_disable(void) { g_watch_active = 0; g_events_on = 0; g_pert_mode = 0; }

static int ev_cmp(const void *a, const void *b)
{
    const ev_t *x = a, *y = b;
    return x->seq < y->seq ? -1 : x->seq > y->seq;
}
size_t mon_collect(ev_t **out)
{
    size_t tot = 0;
    pthread_mutex_lock(&all_lock);
    for (tbuf_t *t = all_bufs; t; t = t->next) tot += t->n;
    ev_t *ev = malloc((tot + 1) * sizeof(ev_t));
    size_t k = 0;
    for (tbuf_t *t = all_bufs; t; t = t->next) { if (t->n) memcpy(ev + k, t->ev, t->n * sizeof(ev_t)); k += t->n; }
    pthread_mutex_unlock(&all_lock);
    qsort(ev, tot, sizeof(ev_t), ev_cmp);
    *out = ev;
    return tot;
}
long mon_perturbs(void) { long s = 0; for (tbuf_t *t = all_bufs; t; t = t->next) s += t->perturbs; return s; }
long mon_sched_none(void) { long s = 0; for (tbuf_t *t = all_bufs; t; t = t->next) s += t->sched_none; return s; }
long mon_swaps(void) { long s = 0; for (tbuf_t *t = all_bufs; t; t = t->next) s += t->swaps; return s; }
int mon_threads_seen(void) { int k = 0; for (tbuf_t *t = all_bufs; t; t = t->next) if (t->n) ++k; return k; }

void mon_dump(const ev_t *ev, size_t nev, const char *path)
{
    static const char *nm[] = {"?", "SCHED", "PANEL_BEGIN", "PANEL_DONE", "MARK_BUSY", "COL_BEGIN", "COL_PIVOTED",
        "COL_RELEASE", "WAIT_BEGIN", "WAIT_END", "SN_READ_BEGIN", "SN_READ_END", "SN_XCHG", "PRUNE_BEGIN", "PRUNE_END",
        "SUB_READ_BEGIN", "SUB_READ_END", "NSUPER", "LSUB_ALLOC", "ALLOC_LUSUP", "DYN_SETMAP", "SNODE_BEGIN", "WORK_ALLOC", "WORK_FREE"};
    _Static_assert(sizeof nm / sizeof nm[0] == SLUV_E_MAX, "event name table out of date");
    FILE *f = fopen(path, "w");
    if (!f) return;
    for (size_t i = 0; i < nev; ++i)
        fprintf(f, "%llu t%d %s %ld %ld %ld %ld %ld %ld\n", (unsigned long long)ev[i].seq, ev[i].tid,
                ev[i].kind > 0 && ev[i].kind < SLUV_E_MAX ? nm[ev[i].kind] : "?", ev[i].a, ev[i].b, ev[i].c, ev[i].d, ev[i].e, ev[i].f);
    fclose(f);
}

/* ------------------------------------------------------------------ */
/* offline checker                                                     */
/* ------------------------------------------------------------------ */
#define MAXT 256
typedef struct { int open; long fsupc, krep, jcol; uint64_t seq; } rdbr_t;
typedef struct { int open; long irep, lo, hi, jcol, swaps0; uint64_t seq; int id; } prbr_t;
typedef struct { int open; long krep, lo, hi, jcol; uint64_t seq; } sbbr_t;
typedef struct { int a_tid, b_tid; int a_id; int kind; long irep; long other_rep; } ovl_t;  /* kind 0: prune-prune, 1: prune-subread */

static int ranges_meet(long lo1, long hi1, long lo2, long hi2) { return lo1 <= hi2 && lo2 <= hi1; }

void mon_analyze(const ev_t *ev, size_t nev, int_t n, const int_t *etree, const int_t *fin_fst,
                 int nprocs, evstats_t *st)
{
    memset(st, 0, sizeof *st);
    st->n_events = (long)nev;
    if (n <= 0) return;
    char key[160];
#define EFAIL(k, ...) do { snprintf(key, sizeof key, "%s", k); jo_fail(key, __VA_ARGS__); } while (0)
    long N = n;
    int *take_cnt = xcalloc(N + 1, sizeof(int)), *begin_cnt = xcalloc(N + 1, sizeof(int)), *piv_cnt = xcalloc(N + 1, sizeof(int)),
        *rel_cnt = xcalloc(N + 1, sizeof(int)), *done_cnt = xcalloc(N + 1, sizeof(int)), *pbeg_cnt = xcalloc(N + 1, sizeof(int));
    int *taker = xmalloc((N + 1) * sizeof(int)), *ptype = xcalloc(N + 1, sizeof(int)), *col_tid = xmalloc((N + 1) * sizeof(int));
    long *pw = xcalloc(N + 1, sizeof(long)), *panel_of = xmalloc((N + 1) * sizeof(long));
    uint64_t *rel_seq = xcalloc(N + 1, sizeof(uint64_t)), *done_seq = xcalloc(N + 1, sizeof(uint64_t)),
             *take_seq = xcalloc(N + 1, sizeof(uint64_t)), *piv_seq = xcalloc(N + 1, sizeof(uint64_t));
    long *fin_rep = xmalloc((N + 1) * sizeof(long));
    long *bcol_sched = xmalloc((N + 1) * sizeof(long)), *bcol_mark = xmalloc((N + 1) * sizeof(long));
    unsigned char *waited = NULL;     /* per (panel) bitmap built lazily */
    for (long j = 0; j <= N; ++j) { taker[j] = -1; col_tid[j] = -1; panel_of[j] = -1; bcol_sched[j] = -1; bcol_mark[j] = -1; fin_rep[j] = -1; }
    if (fin_fst) for (long j = 0; j < N; ++j) { long f = fin_fst[j]; if (f >= 0 && f < N && j > fin_rep[f]) fin_rep[f] = j; }

    /* pre-pass: panel partition from PANEL_BEGIN */
    int tid_pnum[MAXT]; for (int i = 0; i < MAXT; ++i) tid_pnum[i] = -1;
    for (size_t i = 0; i < nev; ++i) if (ev[i].kind == SLUV_E_PANEL_BEGIN) {
        long j = ev[i].b, w = ev[i].c;
        if (j < 0 || j >= N || w < 1 || j + w > N) { EFAIL("C04|panel-range", "PANEL_BEGIN with column %ld width %ld", j, w); continue; }
        pw[j] = w; ptype[j] = (int)ev[i].d;
        for (long c = j; c < j + w; ++c) panel_of[c] = j;
    }
    long uncovered = 0; for (long c = 0; c < N; ++c) if (panel_of[c] < 0) ++uncovered;
    if (uncovered) EFAIL("C04|column-never-factored", "%ld columns were not covered by any panel taken", uncovered);
    int contract = (etree != NULL && !uncovered && N <= 600);

    rdbr_t rd[MAXT]; prbr_t pr[MAXT]; sbbr_t sb[MAXT];
    memset(rd, 0, sizeof rd); memset(pr, 0, sizeof pr); memset(sb, 0, sizeof sb);
    /* finished prune brackets: swaps known at end */
    long *prune_swaps = NULL; size_t nprune = 0, capprune = 0;
    ovl_t *ov = NULL; size_t nov = 0, capov = 0;
    struct { long pos, len, col; } *la = NULL; size_t nla = 0, capla = 0;      /* reservations of L subscripts */
    /* at-most-once set of (jcol,fsupc) */
    size_t hcap = 1; while (hcap < 4 * nev + 16) hcap <<= 1;
    uint64_t *hset = xcalloc(hcap, sizeof(uint64_t));
    /* nsuper / lsub allocation order */
    long *ns_pos = xmalloc((N + 1) * sizeof(long)); for (long j = 0; j <= N; ++j) ns_pos[j] = -1;
    long *col_ns = xmalloc((N + 1) * sizeof(long)); for (long j = 0; j <= N; ++j) col_ns[j] = -1;
    /* dynamic slots */
    long *dyn_beg = xmalloc((N + 1) * sizeof(long)), *dyn_end = xmalloc((N + 1) * sizeof(long));
    for (long j = 0; j <= N; ++j) dyn_beg[j] = dyn_end[j] = -1;
    long last_tr = -1, ntakes = 0, first_tr = -1;
    int threads_panels[MAXT]; memset(threads_panels, 0, sizeof threads_panels);

    for (size_t i = 0; i < nev; ++i) {
        const ev_t *x = &ev[i];
        int t = x->tid; if (t < 0 || t >= MAXT) continue;
        switch (x->kind) {
        case SLUV_E_SCHED: {
            long panel = x->b, bcol = x->c, tr = x->d, head = x->e, tail = x->f & 0x7fffffff, cnt = x->f >> 32;
            if (tail > N) EFAIL("C04|queue-overflow", "task queue tail %ld exceeds its %ld slots", tail, N);
            if (tail > st->max_tail) st->max_tail = tail;
            if (cnt < 0 || head < 0 || head > tail || cnt != tail - head)
                EFAIL("C04|queue-inconsistent", "queue head %ld tail %ld count %ld", head, tail, cnt);
            if (tr < 0) EFAIL("C04|tasks-negative", "tasks_remain = %ld", tr);
            if (panel >= 0) {
                ++ntakes;
                if (panel >= N) { EFAIL("C04|panel-range", "scheduler returned panel %ld", panel); break; }
                if (last_tr >= 0 && tr != last_tr - 1) EFAIL("C04|tasks-count", "tasks_remain went %ld -> %ld at a take", last_tr, tr);
                if (first_tr < 0) first_tr = tr;
                if (++take_cnt[panel] > 1) EFAIL("C04|panel-taken-twice", "panel %ld handed out %d times", panel, take_cnt[panel]);
                taker[panel] = t; take_seq[panel] = x->seq; bcol_sched[panel] = bcol;
                tid_pnum[t] = (int)x->a;
                threads_panels[t] = 1;
                if (bcol != panel) st->pipelined_takes++;
                if (panel_of[panel] != panel) EFAIL("C04|take-not-leader", "scheduler handed out column %ld which is not a panel's leading column", panel);
                /* ---- scheduler contract ---- */
                if (contract && pw[panel] > 0) {
                    long J = panel;
                    unsigned char *onchain = xcalloc(N + 1, 1);
                    int chain_ok = 1;
                    if (bcol != J) {
                        if (bcol < 0 || bcol >= N || panel_of[bcol] != bcol) { EFAIL("C03|bcol-not-panel", "panel %ld: farthest busy column %ld is not a panel leader", J, bcol); chain_ok = 0; }
                        long X = bcol, guard = 0;
                        while (chain_ok && X != J) {
                            onchain[X] = 1;
                            if (!take_seq[X]) { EFAIL("C03|chain-not-busy", "panel %ld taken while chain panel %ld (from busy column %ld) has not been taken", J, X, bcol); }
                            long p = etree[X + pw[X] - 1];
                            if (p >= N || ++guard > N) { EFAIL("C03|bcol-not-descendant", "panel %ld: busy column %ld is not a descendant", J, bcol); chain_ok = 0; break; }
                            X = panel_of[p];
                            if (X > J) { EFAIL("C03|bcol-not-descendant", "panel %ld: busy column %ld is not a descendant", J, bcol); chain_ok = 0; break; }
                        }
                    }
                    /* children rule: every child panel of J and of every chain panel is finished (its
                       PANEL_DONE was logged) or is itself the next element of the chain; the farthest
                       busy panel has no unfinished child at all */
                    for (long D = 0; D < J && chain_ok; D += (pw[D] > 0 ? pw[D] : 1)) {
                        if (panel_of[D] != D) continue;
                        long p = etree[D + pw[D] - 1];
                        long X = (p >= N) ? N : panel_of[p];
                        if (X != J && !(X < N && onchain[X])) continue;
                        if (done_seq[D] || onchain[D]) continue;
                        EFAIL("C03|taken-before-children-done", "panel %ld handed out (busy column %ld) while child panel %ld of panel %ld is neither finished nor on the busy chain", J, bcol, D, X);
                        break;
                    }
                    free(onchain);
                }
            } else {
                st->sched_none++;
                if (last_tr >= 0 && tr != last_tr) EFAIL("C04|tasks-count", "tasks_remain changed %ld -> %ld without a take", last_tr, tr);
            }
            last_tr = tr;
            break; }
        case SLUV_E_PANEL_BEGIN: {
            long j = x->b;
            if (j < 0 || j >= N) break;
            ++pbeg_cnt[j]; st->panels++;
            if (ptype[j] == RELAXED_SNODE) st->relaxed_panels++;
            if (taker[j] != t) EFAIL("C04|panel-begin-by-other", "panel %ld begun by a thread that did not take it", j);
            break; }
        case SLUV_E_MARK_BUSY: if (x->b >= 0 && x->b < N) bcol_mark[x->b] = x->c; break;
        case SLUV_E_SNODE_BEGIN:
            for (long c = x->b; c < x->c && c < N; ++c) if (c >= 0) { ++begin_cnt[c]; col_tid[c] = t; }
            break;
        case SLUV_E_COL_BEGIN: {
            long c = x->b; if (c < 0 || c >= N) break;
            ++begin_cnt[c]; col_tid[c] = t;
            if (panel_of[c] != x->c || taker[x->c] != t) EFAIL("C04|column-by-other", "column %ld factored by a thread that does not own its panel", c);
            break; }
        case SLUV_E_COL_PIVOTED: {
            long c = x->b; if (c < 0 || c >= N) break;
            ++piv_cnt[c]; piv_seq[c] = x->seq;
            if (col_tid[c] != t) EFAIL("C04|column-by-other", "column %ld pivoted by a different thread than the one that began it", c);
            break; }
        case SLUV_E_COL_RELEASE: {
            long c = x->b; if (c < 0 || c >= N) break;
            ++rel_cnt[c]; rel_seq[c] = x->seq;
            if (piv_cnt[c] != 1) EFAIL("C03|release-before-pivot", "column %ld released with %d pivot events before it", c, piv_cnt[c]);
            if (col_tid[c] != t) EFAIL("C04|column-by-other", "column %ld released by a different thread", c);
            break; }
        case SLUV_E_PANEL_DONE: {
            long j = x->b; if (j < 0 || j >= N) break;
            ++done_cnt[j]; done_seq[j] = x->seq;
            for (long c = j; c < j + pw[j] && c < N; ++c) if (!rel_seq[c]) { EFAIL("C03|done-before-release", "panel %ld marked done before column %ld was released", j, c); break; }
            /* wait-path check */
            if (contract && ptype[j] != RELAXED_SNODE && waited) {
                /* handled below via per-panel list */
            }
            break; }
        case SLUV_E_WAIT_BEGIN: st->waits_blocked++; break;
        case SLUV_E_WAIT_END: st->wait_points++; break;
        case SLUV_E_SN_READ_BEGIN: {
            long jcol = x->b, fs = x->c, kr = x->d;
            if (fs < 0 || kr >= N || kr < fs) { EFAIL("C03|read-range", "supernode read [%ld,%ld]", fs, kr); break; }
            if (x->f) st->busy_updates++; else st->done_updates++;
            for (long c = fs; c <= kr; ++c)
                if (!rel_seq[c]) { EFAIL("C03|read-before-release", "panel %ld read supernode [%ld..%ld] before column %ld was released (busy-branch=%ld)", jcol, fs, kr, c, x->f); break; }
            /* still growing under another thread? */
            if (fin_fst && fin_rep[fs] > kr) {
                long nx = kr + 1;
                if (nx < N && fin_fst[nx] == fs && begin_cnt[nx] > 0 && col_tid[nx] != t && !rel_seq[nx])
                    EFAIL("C03|read-growing-supernode", "panel %ld read supernode [%ld..%ld] while column %ld of the same supernode was still being factored by another thread", jcol, fs, kr, nx);
            }
            uint64_t hk = ((uint64_t)(jcol + 1) << 32) | (uint64_t)(fs + 1);
            size_t h = (size_t)((hk * 0x9e3779b97f4a7c15ULL) >> 20) & (hcap - 1);
            while (hset[h] && hset[h] != hk) h = (h + 1) & (hcap - 1);
            if (hset[h] == hk) EFAIL("C03|update-applied-twice", "panel %ld was updated twice by supernode starting at column %ld", jcol, fs);
            hset[h] = hk;
            rd[t].open = 1; rd[t].fsupc = fs; rd[t].krep = kr; rd[t].jcol = jcol; rd[t].seq = x->seq;
            break; }
        case SLUV_E_SN_READ_END: rd[t].open = 0; break;
        case SLUV_E_SN_XCHG: {
            st->xchg++;
            long fs = x->c;
            for (int o = 0; o < MAXT; ++o) if (o != t && rd[o].open && rd[o].fsupc == fs)
                EFAIL("C03|interchange-during-read", "rows of supernode starting at %ld interchanged (column %ld) while another thread was reading it for panel %ld", fs, x->b, rd[o].jcol);
            break; }
        case SLUV_E_PRUNE_BEGIN: {
            st->prunes++;
            pr[t].open = 1; pr[t].irep = x->b; pr[t].jcol = x->c; pr[t].lo = x->d; pr[t].hi = x->e; pr[t].swaps0 = x->f; pr[t].seq = x->seq;
            if (nprune == capprune) { capprune = capprune ? 2 * capprune : 256; prune_swaps = realloc(prune_swaps, capprune * sizeof(long)); }
            pr[t].id = (int)nprune; prune_swaps[nprune++] = 0;
            for (int o = 0; o < MAXT; ++o) {
                if (o == t) continue;
                if (pr[o].open && ranges_meet(pr[o].lo, pr[o].hi, pr[t].lo, pr[t].hi)) {
                    if (nov == capov) { capov = capov ? 2 * capov : 64; ov = realloc(ov, capov * sizeof(ovl_t)); }
                    ov[nov++] = (ovl_t){ t, o, pr[t].id, 0, pr[t].irep, pr[o].id };
                }
                if (sb[o].open && ranges_meet(sb[o].lo, sb[o].hi - 1, pr[t].lo, pr[t].hi)) {
                    if (nov == capov) { capov = capov ? 2 * capov : 64; ov = realloc(ov, capov * sizeof(ovl_t)); }
                    ov[nov++] = (ovl_t){ t, o, pr[t].id, 1, pr[t].irep, sb[o].krep };
                }
            }
            break; }
        case SLUV_E_PRUNE_END:
            if (pr[t].open) { prune_swaps[pr[t].id] = x->f - pr[t].swaps0; st->prune_swaps += prune_swaps[pr[t].id]; }
            pr[t].open = 0;
            break;
        case SLUV_E_SUB_READ_BEGIN: {
            st->sub_reads++;
            sb[t].open = 1; sb[t].krep = x->c; sb[t].lo = x->d; sb[t].hi = x->e; sb[t].jcol = x->b; sb[t].seq = x->seq;
            for (int o = 0; o < MAXT; ++o) if (o != t && pr[o].open && ranges_meet(sb[t].lo, sb[t].hi - 1, pr[o].lo, pr[o].hi)) {
                if (nov == capov) { capov = capov ? 2 * capov : 64; ov = realloc(ov, capov * sizeof(ovl_t)); }
                ov[nov++] = (ovl_t){ o, t, pr[o].id, 1, pr[o].irep, sb[t].krep };
            }
            break; }
        case SLUV_E_SUB_READ_END: sb[t].open = 0; break;
        case SLUV_E_NSUPER: if (x->b >= 0 && x->b < N) col_ns[x->b] = x->c; break;
        case SLUV_E_LSUB_ALLOC: { long c = x->b; if (c >= 0 && c < N && col_ns[c] >= 0 && col_ns[c] <= N) ns_pos[col_ns[c]] = x->c;
            if (nla == capla) { capla = capla ? 2 * capla : 256; la = realloc(la, capla * sizeof *la); }
            la[nla].pos = x->c; la[nla].len = x->d; la[nla].col = x->b; ++nla;
            break; }
        case SLUV_E_DYN_SETMAP: {
            st->dynsetmaps++;
            long c = x->b; if (c < 0 || c >= N) break;
            dyn_beg[c] = x->c; dyn_end[c] = x->c + x->d;
            break; }
        case SLUV_E_ALLOC_LUSUP: {
            long fs = x->c, prev = x->d, num = x->e, nzlumax = x->f;
            if (g_slot_n != N || fs < 0 || fs >= N) break;
            long beg, end;
            if (dyn_beg[fs] >= 0) { beg = dyn_beg[fs]; end = dyn_end[fs]; }
            else {
                beg = g_slot_map[fs];
                end = g_slot_nextpos;
                for (long j = 0; j <= N; ++j) {
                    long v = (j == N) ? g_slot_nextpos : g_slot_map[j];
                    if (j < N && v < 0) continue;
                    if (v > beg && v < end) end = v;
                }
                if (g_slot_dynamic && beg == 0 && g_slot_map[fs] == 0) {
                    /* dynamic mode, leader never given a slot by DynamicSetMap: only the relaxed leader at 0 is legal */
                }
            }
            if (prev < beg || prev + num > end || prev + num > nzlumax)
                EFAIL("C05|L-slot-overrun", "column %ld: L values [%ld,%ld) requested outside the slot [%ld,%ld) reserved for the supernode starting at %ld (nzlumax %ld, dynamic=%d)",
                      x->b, prev, prev + num, beg, end, fs, nzlumax, g_slot_dynamic);
            break; }
        default: break;
        }
    }
    /* ---- per-column / per-panel exactly-once ---- */
    for (long c = 0; c < N; ++c) {
        if (begin_cnt[c] != 1) { EFAIL("C04|column-count", "column %ld begun %d times", c, begin_cnt[c]); break; }
        if (piv_cnt[c] != 1) { EFAIL("C04|column-count", "column %ld pivoted %d times", c, piv_cnt[c]); break; }
        if (rel_cnt[c] != 1) { EFAIL("C04|column-count", "column %ld released %d times", c, rel_cnt[c]); break; }
    }
    for (long j = 0; j < N; ++j) if (panel_of[j] == j) {
        if (take_cnt[j] != 1 || pbeg_cnt[j] != 1 || done_cnt[j] != 1) { EFAIL("C04|panel-count", "panel %ld: taken %d, begun %d, done %d times", j, take_cnt[j], pbeg_cnt[j], done_cnt[j]); break; }
    }
    if (ntakes > 0 && last_tr != 0) EFAIL("C04|tasks-nonzero-at-end", "tasks_remain = %ld after the last take", last_tr);
    if (first_tr >= 0 && first_tr + 1 != ntakes) EFAIL("C04|tasks-count", "initial task count %ld but %ld panels were handed out", first_tr + 1, ntakes);

    /* ---- wait path = etree path from the marked busy column ---- */
    if (contract) {
        unsigned char *w = xcalloc(N + 1, 1);
        for (long J = 0; J < N; ++J) {
            if (panel_of[J] != J || ptype[J] == RELAXED_SNODE || bcol_mark[J] < 0) continue;
            int T = taker[J];
            memset(w, 0, N + 1);
            for (size_t i = 0; i < nev; ++i)
                if (ev[i].kind == SLUV_E_WAIT_END && ev[i].tid == T && ev[i].b == J && ev[i].c >= 0 && ev[i].c < N) w[ev[i].c] |= 1;
            long k = bcol_mark[J], guard = 0;
            while (k < J && guard++ <= N) { w[k] |= 2; k = etree[k]; }
            for (long c = 0; c < N; ++c) {
                if (w[c] == 2) { EFAIL("C03|busy-column-not-awaited", "panel %ld never waited for column %ld on its busy chain (from column %ld)", J, c, bcol_mark[J]); break; }
                if (w[c] == 1) { EFAIL("C03|wait-off-chain", "panel %ld waited for column %ld which is not on its busy chain (from column %ld)", J, c, bcol_mark[J]); break; }
            }
            /* the chain named by the scheduler must be inside what was marked */
            if (bcol_sched[J] >= 0 && bcol_sched[J] < J && bcol_mark[J] > bcol_sched[J])
                EFAIL("C03|mark-misses-bcol", "panel %ld: scheduler's busy column %ld lies before the marked start %ld", J, bcol_sched[J], bcol_mark[J]);
        }
        free(w);
    }
    /* ---- prune overlaps ---- */
    for (size_t i = 0; i < nov; ++i) {
        long sw = prune_swaps[ov[i].a_id];
        if (ov[i].kind == 0) {
            long sw2 = prune_swaps[ov[i].other_rep];
            st->prune_overlap_prune++;
            if (sw + sw2 > 0)
                EFAIL("C03|prune-vs-prune", "two threads partitioned the subscripts of supernode rep %ld concurrently (%ld + %ld interchanges)", ov[i].irep, sw, sw2);
        } else {
            st->prune_overlap_subread++;
            if (sw > 0)
                EFAIL("C03|prune-vs-subscript-scan", "subscripts of supernode rep %ld were interchanged (%ld swaps) while another thread scanned them to append fills", ov[i].irep, sw);
        }
    }
    /* ---- numbering vs storage order ---- */
    {
        long prev = -1;
        for (long s = 0; s <= N; ++s) { if (ns_pos[s] < 0) continue; if (prev >= 0 && ns_pos[s] < prev) st->nsuper_order_mismatch++; prev = ns_pos[s]; }
    }
    /* ---- reservations of L subscripts: every supernode asks for its rows twice over (rows + prunable copy); the extents
       the threads were given (position from the allocator, length as announced at the request site) must not overlap ---- */
    if (nla > 1) {
        /* insertion sort by position (allocations are nearly in order already) */
        for (size_t i = 1; i < nla; ++i) { size_t j = i; while (j > 0 && la[j - 1].pos > la[j].pos) { long tp = la[j].pos, tl = la[j].len, tc = la[j].col; la[j] = la[j - 1]; la[j - 1].pos = tp; la[j - 1].len = tl; la[j - 1].col = tc; --j; } }
        for (size_t i = 1; i < nla; ++i)
            if (la[i - 1].pos + la[i - 1].len > la[i].pos) {
                EFAIL("C09|lsub-extents-overlap", "the L subscripts of the supernode starting at column %ld (position %ld, %ld entries incl. the prunable copy) run into those of column %ld (position %ld)",
                      la[i - 1].col, la[i - 1].pos, la[i - 1].len, la[i].col, la[i].pos);
                break;
            }
    }
    free(la);
    for (int t = 0; t < MAXT; ++t) st->threads_with_panels += threads_panels[t];
    (void)nprocs; (void)tid_pnum; (void)waited; (void)piv_seq;
    free(take_cnt); free(begin_cnt); free(piv_cnt); free(rel_cnt); free(done_cnt); free(pbeg_cnt); free(taker); free(ptype);
    free(col_tid); free(pw); free(panel_of); free(rel_seq); free(done_seq); free(take_seq); free(piv_seq); free(fin_rep);
    free(bcol_sched); free(bcol_mark); free(prune_swaps); free(ov); free(hset); free(ns_pos); free(col_ns); free(dyn_beg); free(dyn_end);
#undef EFAIL
}

long mon_slot_allocs(void) { return g_slot_n; }
void mon_slots_check_report(void) {}

/* ---- deadlock watch ------------------------------------------------------
 * A worker whose latest scheduler call came back empty-handed holds no panel.  If ALL nprocs workers are in
 * that state no panel is in progress, so nothing can ever change the scheduler's state again: the factorization
 * cannot terminate (a lost wake-up).  The condition is logical; the polling period only bounds how soon it is
 * noticed.  The probe reports it on stderr and leaves (the stuck call cannot be returned from). */
static void *watch_main(void *arg)
{
    (void)arg;
    enum { MAXW = 256 };
    static long base[MAXW];
    uint64_t wseq = 0; int wvalid = 0, age = 0;
    for (;;) {
        nap_us(100000);
        if (!g_watch_active) { wvalid = 0; continue; }
        uint64_t sq = atomic_load(&g_seq);
        int idle = 0, workers = 0, advanced = 0;
        pthread_mutex_lock(&all_lock);
        if (!wvalid || sq != wseq) {
            /* (re)start the observation window: remember every worker's count of empty-handed scheduler calls */
            int k = 0;
            for (tbuf_t *t = all_bufs; t && k < MAXW; t = t->next, ++k) base[k] = t->sched_none;
            wseq = sq; wvalid = 1; age = 0;
            pthread_mutex_unlock(&all_lock);
            continue;
        }
        int k = 0;
        for (tbuf_t *t = all_bufs; t && k < MAXW; t = t->next, ++k) {
            ++workers;
            if (t->last_none) ++idle;
            if (t->sched_none - base[k] >= 2) ++advanced;
        }
        pthread_mutex_unlock(&all_lock);
        ++age;
        /* no event has been logged since the window opened (so no panel was taken, finished or released), every worker is
           empty-handed, and every worker has since completed at least one more scheduler call that found nothing: the
           scheduler's state can no longer change, whatever the timing */
        if (workers >= g_nprocs_real && idle == workers && advanced == workers && age >= 5 && atomic_load(&g_seq) == wseq && g_watch_active) {
            fprintf(stderr, "\n@deadlock %ld all %d workers poll an empty scheduler, none holds a panel, each polled again without any event in between\n", hx_cur_case_id, workers);
            fflush(stderr);
            _exit(86);
        }
    }
    return NULL;
}
void mon_watch_start(void)
{
    static int started;
    if (started) return;
    started = 1;
    pthread_t th; pthread_attr_t at;
    pthread_attr_init(&at); pthread_attr_setdetachstate(&at, PTHREAD_CREATE_DETACHED);
    if (pthread_create(&th, &at, watch_main, NULL) == 0) hx_extra_threads = 1;
}

/* ---- work arrays carved from the caller's workspace (C14) -----------------
 * WORK_ALLOC: a = iwork, b = bytes, c = dwork, d = bytes, e = 1 if carved from the user's buffer; WORK_FREE: a = iwork, b = dwork.
 * Two arrays that are live at the same time (by event sequence numbers) must not share a byte, and user-space
 * arrays must lie inside [ws, ws + lw). */
long mon_check_work(const ev_t *ev, size_t nev, const void *ws, long lw, const char *key)
{
    typedef struct { uint64_t s0, s1; unsigned long lo, hi; int tid, isd; } blk_t;
    blk_t *B = xmalloc((2 * nev + 2) * sizeof(blk_t)); size_t nb = 0; long nalloc = 0, nfail = 0;
    for (size_t i = 0; i < nev; ++i) {
        if (ev[i].kind == SLUV_E_WORK_ALLOC) {
            ++nalloc;
            if (!ev[i].e) continue;         /* malloc'ed: the allocator keeps them apart */
            B[nb++] = (blk_t){ ev[i].seq, UINT64_MAX, (unsigned long)ev[i].a, (unsigned long)ev[i].a + (unsigned long)ev[i].b, ev[i].tid, 0 };
            B[nb++] = (blk_t){ ev[i].seq, UINT64_MAX, (unsigned long)ev[i].c, (unsigned long)ev[i].c + (unsigned long)ev[i].d, ev[i].tid, 1 };
        } else if (ev[i].kind == SLUV_E_WORK_FREE) {
            for (size_t k = 0; k < nb; ++k) if (B[k].s1 == UINT64_MAX && (B[k].lo == (unsigned long)ev[i].a || B[k].lo == (unsigned long)ev[i].b)) B[k].s1 = ev[i].seq;
        }
    }
    for (size_t x = 0; x < nb && nfail < 3; ++x) {
        if (ws && (B[x].lo < (unsigned long)ws || B[x].hi > (unsigned long)ws + (unsigned long)lw)) {
            char k2[96]; snprintf(k2, sizeof k2, "%s|work-array-outside-workspace", key);
            jo_fail(k2, "thread %d: %s work array [%#lx,%#lx) is not inside the caller's workspace [%#lx,%#lx)", B[x].tid, B[x].isd ? "floating-point" : "integer", B[x].lo, B[x].hi, (unsigned long)ws, (unsigned long)ws + (unsigned long)lw);
            ++nfail;
        }
        for (size_t y = x + 1; y < nb && nfail < 3; ++y) {
            if (B[x].lo < B[y].hi && B[y].lo < B[x].hi && B[x].s0 < B[y].s1 && B[y].s0 < B[x].s1) {
                char k2[96]; snprintf(k2, sizeof k2, "%s|work-arrays-overlap", key);
                unsigned long lo = B[x].lo > B[y].lo ? B[x].lo : B[y].lo, hi = B[x].hi < B[y].hi ? B[x].hi : B[y].hi;
                jo_fail(k2, "%s work array of thread %d and %s work array of thread %d share %lu bytes of the caller's workspace while both are live (workspace offset %lu of %ld, end of buffer %s8-byte aligned)",
                        B[x].isd ? "floating-point" : "integer", B[x].tid, B[y].isd ? "floating-point" : "integer", B[y].tid, hi - lo, ws ? lo - (unsigned long)ws : 0UL, lw, (((unsigned long)ws + (unsigned long)lw) & 7) ? "NOT " : "");
                ++nfail;
            }
        }
    }
    free(B);
    return nalloc;
}

/* work arrays carved from the caller's workspace versus the parts of the same workspace that the returned factors occupy */
long mon_check_work_vs(const ev_t *ev, size_t nev, const void *const *ptrs, const size_t *lens, const char *const *names, int cnt, const char *key)
{
    long nfail = 0;
    for (size_t i = 0; i < nev && nfail < 2; ++i) {
        if (ev[i].kind != SLUV_E_WORK_ALLOC || !ev[i].e) continue;
        unsigned long lo[2] = { (unsigned long)ev[i].a, (unsigned long)ev[i].c }, hi[2] = { lo[0] + (unsigned long)ev[i].b, lo[1] + (unsigned long)ev[i].d };
        for (int w = 0; w < 2 && nfail < 2; ++w) for (int q = 0; q < cnt; ++q) {
            unsigned long a = (unsigned long)ptrs[q], b = a + lens[q];
            if (lens[q] && lo[w] < b && a < hi[w]) {
                char k2[96]; snprintf(k2, sizeof k2, "%s|work-array-overlaps-factors", key);
                jo_fail(k2, "%s work array of thread %d [%#lx,%#lx) shares %lu bytes with the %s of the returned factors inside the caller's workspace",
                        w ? "floating-point" : "integer", ev[i].tid, lo[w], hi[w], (hi[w] < b ? hi[w] : b) - (lo[w] > a ? lo[w] : a), names[q]);
                ++nfail; break;
            }
        }
    }
    return nfail;
}
