/* Overrides of the two documented user-replaceable routines: sp_ienv() and xerbla_(). */
#include "hx.h"

int_t hx_ienv[9];
int   hx_xerbla_count;
char  hx_xerbla_name[64];
int   hx_xerbla_info;
int   hx_xerbla_log[16];
int   hx_abort_mode;

void hx_ienv_defaults(void)
{
    /* the values of SRC/sp_ienv.c for the generic machine */
    hx_ienv[1] = 20; hx_ienv[2] = 6; hx_ienv[3] = 200; hx_ienv[4] = 200; hx_ienv[5] = 100;
    hx_ienv[6] = -50; hx_ienv[7] = -50; hx_ienv[8] = -30;
}
void hx_ienv_from_case(const case_t *c)
{
    hx_ienv_defaults();
    hx_ienv[1] = cint(c, "w", hx_ienv[1]);
    hx_ienv[2] = cint(c, "relax", hx_ienv[2]);
    hx_ienv[3] = cint(c, "maxsup", hx_ienv[3]);
    hx_ienv[4] = cint(c, "rowblk", hx_ienv[4]);
    hx_ienv[5] = cint(c, "colblk", hx_ienv[5]);
    hx_ienv[6] = cint(c, "fill6", hx_ienv[6]);
    hx_ienv[7] = cint(c, "fill7", hx_ienv[7]);
    hx_ienv[8] = cint(c, "fill8", hx_ienv[8]);
}

int_t sp_ienv(int_t ispec)
{
    if (ispec >= 1 && ispec <= 8) return hx_ienv[ispec];
    int i = 1;
    xerbla_("sp_ienv", &i);
    return 0;
}

int xerbla_(char *srname, int *info)
{
    if (hx_xerbla_count < 16) hx_xerbla_log[hx_xerbla_count] = *info;
    if (hx_xerbla_count == 0) {
        snprintf(hx_xerbla_name, sizeof hx_xerbla_name, "%s", srname);
        hx_xerbla_info = *info;
    }
    ++hx_xerbla_count;
    return 0;
}
