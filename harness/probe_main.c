/* probe: reads one case per line ("key=value ...") from stdin or the file given
 * as argv[1], runs it against the library, prints one JSON line per case. */
#include "hx.h"
#include <signal.h>
#include <unistd.h>

int cmd_sing(const case_t *c);
int cmd_gssvx(const case_t *c);
int cmd_kern(const case_t *c);
int cmd_equil(const case_t *c);
int cmd_order(const case_t *c);
int cmd_args(const case_t *c);
int cmd_hist(const case_t *c);
int cmd_read(const case_t *c);

static const struct { const char *name; cmd_fn fn; } cmds[] = {
    { "gssv", cmd_gssv }, { "gstrf", cmd_gstrf }, { "gssvx", cmd_gssvx }, { "kern", cmd_kern }, { "equil", cmd_equil }, { "order", cmd_order }, { "args", cmd_args }, { "hist", cmd_hist }, { "read", cmd_read }, { "sched", cmd_sched },
    { NULL, NULL }
};

int main(int argc, char **argv)
{
    FILE *in = stdin;
    if (argc > 1 && strcmp(argv[1], "-")) { in = fopen(argv[1], "r"); if (!in) { perror(argv[1]); return 4; } }
    /* JSON goes to the original stdout; whatever the library prints on stdout is sent to stderr */
    { extern FILE *hx_jout; hx_jout = fdopen(dup(1), "w"); fflush(stdout); dup2(2, 1); }
    setvbuf(stdout, NULL, _IOLBF, 0);
    hx_ienv_defaults();
    char *line = NULL; size_t cap = 0; ssize_t len;
    int rc = 0;
    while ((len = getline(&line, &cap, in)) > 0) {
        if (line[0] == '#' || line[0] == '\n') continue;
        case_t c;
        case_parse(&c, line);
        const char *cmd = cstr(&c, "cmd", "");
        int found = 0;
        for (int i = 0; cmds[i].name; ++i) if (!strcmp(cmds[i].name, cmd)) {
            found = 1;
            /* progress marker so that the driver can tell which case a crash belongs to */
            hx_cur_case_id = cint(&c, "id", -1);
            if (cint(&c, "watch", 0)) mon_watch_start();
            fprintf(stderr, "@case %ld\n", cint(&c, "id", -1)); fflush(stderr);
            int r = cmds[i].fn(&c);
            if (r > rc) rc = r;
            break;
        }
        if (!found) { jo_begin(&c); jo_str("error", "unknown cmd"); jo_end(); rc = 4; }
        case_free(&c);
    }
    free(line);
    return rc;
}
