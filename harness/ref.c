/* Reference oracles: structural validation of returned factors (C09), dense
 * extended-precision reconstruction / residual bounds (C01, C02), reference
 * solves and structural rank. */
#include "hx.h"

#define LD_EPS 1.0842021724855044e-19L   /* 2^-63 */

int is_perm(const int_t *p, int_t n)
{
    unsigned char *seen = xcalloc(n + 1, 1);
    int ok = 1;
    for (int_t i = 0; i < n; ++i) {
        if (p[i] < 0 || p[i] >= n || seen[p[i]]) { ok = 0; break; }
        seen[p[i]] = 1;
    }
    free(seen);
    return ok;
}

typedef struct { long long beg, end; int_t id; } ext_t;
static int ext_cmp(const void *a, const void *b)
{
    const ext_t *x = a, *y = b;
    return x->beg < y->beg ? -1 : x->beg > y->beg ? 1 : (x->end < y->end ? -1 : x->end > y->end);
}

int validate_LU(const SuperMatrix *L, const SuperMatrix *U, const int_t *perm_r, const int_t *perm_c,
                int_t n, const char *kp, long *nsuper_out, long *maxsup_out)
{
    char key[128];
    int bad = 0;
#define VFAIL(sub, ...) do { snprintf(key, sizeof key, "%s|%s", kp, sub); jo_fail(key, __VA_ARGS__); ++bad; } while (0)
    if (nsuper_out) *nsuper_out = 0;
    if (maxsup_out) *maxsup_out = 0;
    if (perm_r && !is_perm(perm_r, n)) VFAIL("perm_r-not-bijection", "perm_r is not a permutation of 0..n-1");
    if (perm_c && !is_perm(perm_c, n)) VFAIL("perm_c-not-bijection", "perm_c is not a permutation of 0..n-1");
    if (L->Stype != SLU_SCP || L->Dtype != SLU_DT || L->Mtype != SLU_TRLU || L->nrow != n || L->ncol != n) {
        VFAIL("L-header", "L header: Stype %d Dtype %d Mtype %d %ldx%ld", L->Stype, L->Dtype, L->Mtype, (long)L->nrow, (long)L->ncol);
        return bad;
    }
    if (U->Stype != SLU_NCP || U->Dtype != SLU_DT || U->Mtype != SLU_TRU || U->nrow != n || U->ncol != n) {
        VFAIL("U-header", "U header: Stype %d Dtype %d Mtype %d %ldx%ld", U->Stype, U->Dtype, U->Mtype, (long)U->nrow, (long)U->ncol);
        return bad;
    }
    if (n == 0) return bad;
    const SCPformat *Ls = L->Store;
    const NCPformat *Us = U->Store;
    if (!Ls || !Us) { VFAIL("null-store", "L or U store is NULL"); return bad; }
    long ns = (long)Ls->nsuper + 1;
    if (ns < 1 || ns > n) { VFAIL("nsuper-range", "nsuper+1 = %ld outside 1..n=%ld", ns, (long)n); return bad; }
    /* supernode partition */
    int_t *cover = xmalloc((n + 1) * sizeof(int_t));
    for (int_t j = 0; j < n; ++j) cover[j] = -1;
    long maxsup = 0;
    int fatal = 0;
    for (long s = 0; s < ns && !fatal; ++s) {
        long fs = Ls->sup_to_colbeg[s], fe = Ls->sup_to_colend[s];
        if (fs < 0 || fe > n || fe <= fs) { VFAIL("sup-range", "supernode %ld has column range [%ld,%ld)", s, fs, fe); fatal = 1; break; }
        if (fe - fs > maxsup) maxsup = fe - fs;
        for (long j = fs; j < fe; ++j) {
            if (cover[j] != -1) { VFAIL("sup-overlap", "column %ld in supernodes %ld and %ld", j, (long)cover[j], s); fatal = 1; break; }
            cover[j] = (int_t)s;
            if (Ls->col_to_sup[j] != s) { VFAIL("col_to_sup-mismatch", "col_to_sup[%ld]=%ld but column lies in supernode %ld", j, (long)Ls->col_to_sup[j], s); }
        }
    }
    if (!fatal) for (int_t j = 0; j < n; ++j) if (cover[j] == -1) { VFAIL("sup-gap", "column %ld belongs to no supernode", (long)j); fatal = 1; break; }
    if (fatal) { free(cover); return bad; }
    if (nsuper_out) *nsuper_out = ns;
    if (maxsup_out) *maxsup_out = maxsup;

    /* row lists + value extents */
    ext_t *vext = xmalloc(ns * sizeof(ext_t)), *rext = xmalloc(ns * sizeof(ext_t));
    unsigned char *mark = xcalloc(n + 1, 1);
    long long cntL = 0, cntUblk = 0;
    for (long s = 0; s < ns; ++s) {
        long fs = Ls->sup_to_colbeg[s], fe = Ls->sup_to_colend[s], nsupc = fe - fs;
        long long rb = Ls->rowind_colbeg[fs], re = Ls->rowind_colend[fs];
        long long nsupr = re - rb;
        rext[s].beg = rb; rext[s].end = re; rext[s].id = (int_t)s;
        vext[s].beg = Ls->nzval_colbeg[fs]; vext[s].end = vext[s].beg + nsupr * nsupc; vext[s].id = (int_t)s;
        if (rb < 0 || nsupr < nsupc || nsupr > n) {
            VFAIL("rowlist-extent", "supernode %ld [%ld,%ld): row list [%lld,%lld) has %lld rows", s, fs, fe, rb, re, nsupr);
            fatal = 1; continue;
        }
        for (long k = 0; k < nsupc; ++k)
            if (Ls->rowind[rb + k] != fs + k) { VFAIL("rowlist-head", "supernode %ld: row list entry %ld is %ld, expected its own column %ld", s, k, (long)Ls->rowind[rb + k], fs + k); break; }
        for (long long k = nsupc; k < nsupr; ++k) {
            long r = Ls->rowind[rb + k];
            if (r < fe || r >= n) { VFAIL("rowlist-range", "supernode %ld [%ld,%ld): below-block row %ld out of (%ld,%ld)", s, fs, fe, r, fe - 1, (long)n); continue; }
            if (mark[r]) { VFAIL("rowlist-dup", "supernode %ld: row %ld listed twice", s, r); continue; }
            mark[r] = 1;
            if (Ls->col_to_sup[r] <= s) VFAIL("triangular-order-L", "supernode %ld has row %ld of supernode %ld (not later in index order)", s, r, (long)Ls->col_to_sup[r]);
        }
        for (long long k = nsupc; k < nsupr; ++k) { long r = Ls->rowind[rb + k]; if (r >= 0 && r < n) mark[r] = 0; }
        for (long j = fs; j < fe; ++j) {
            long long vb = Ls->nzval_colbeg[j], ve = Ls->nzval_colend[j];
            if (ve - vb != nsupr) VFAIL("nzval-length", "column %ld: value extent length %lld != row-list length %lld", j, ve - vb, nsupr);
            if (vb != vext[s].beg + (j - fs) * nsupr) VFAIL("nzval-stride", "column %ld: value extent begins at %lld, expected %lld", j, vb, vext[s].beg + (j - fs) * nsupr);
            if (vb < 0) { VFAIL("nzval-negative", "column %ld: value extent begins at %lld", j, vb); fatal = 1; }
            cntL += nsupr - (j - fs);
            cntUblk += j - fs + 1;
        }
    }
    if (!fatal) {
        qsort(vext, ns, sizeof(ext_t), ext_cmp);
        qsort(rext, ns, sizeof(ext_t), ext_cmp);
        for (long s = 1; s < ns; ++s) {
            if (vext[s].beg < vext[s - 1].end) VFAIL("nzval-overlap", "value extents of supernodes %ld and %ld overlap", (long)vext[s - 1].id, (long)vext[s].id);
            if (rext[s].beg < rext[s - 1].end) VFAIL("rowind-overlap", "row-list extents of supernodes %ld [%lld,%lld) and %ld [%lld,%lld) overlap",
                                                     (long)rext[s - 1].id, rext[s - 1].beg, rext[s - 1].end, (long)rext[s].id, rext[s].beg, rext[s].end);
        }
    }
    /* U columns */
    ext_t *uext = xmalloc((n + 1) * sizeof(ext_t));
    long long cntU = 0;
    for (int_t j = 0; j < n; ++j) {
        long long b = Us->colbeg[j], e = Us->colend[j];
        uext[j].beg = b; uext[j].end = e; uext[j].id = j;
        if (b < 0 || e < b || e - b > n) { VFAIL("U-extent", "U column %ld extent [%lld,%lld)", (long)j, b, e); fatal = 1; continue; }
        long fs = Ls->sup_to_colbeg[Ls->col_to_sup[j]];
        for (long long k = b; k < e; ++k) {
            long r = Us->rowind[k];
            if (r < 0 || r >= fs) { VFAIL("U-row-range", "U column %ld has row %ld, not strictly above its supernode (first column %ld)", (long)j, r, fs); continue; }
            if (mark[r]) { VFAIL("U-row-dup", "U column %ld lists row %ld twice", (long)j, r); continue; }
            mark[r] = 1;
            if (Ls->col_to_sup[r] >= Ls->col_to_sup[j]) VFAIL("triangular-order-U", "U column %ld (supernode %ld) has row %ld of supernode %ld", (long)j, (long)Ls->col_to_sup[j], r, (long)Ls->col_to_sup[r]);
        }
        for (long long k = b; k < e; ++k) { long r = Us->rowind[k]; if (r >= 0 && r < n) mark[r] = 0; }
        cntU += e - b;
    }
    if (!fatal) {
        qsort(uext, n, sizeof(ext_t), ext_cmp);
        for (int_t j = 1; j < n; ++j)
            if (uext[j].beg < uext[j - 1].end && uext[j].end > uext[j].beg && uext[j - 1].end > uext[j - 1].beg)
                VFAIL("U-overlap", "U column extents of %ld and %ld overlap", (long)uext[j - 1].id, (long)uext[j].id);
    }
    if ((long long)Ls->nnz != cntL) VFAIL("L-nnz", "L nnz field %ld != counted %lld", (long)Ls->nnz, cntL);
    if ((long long)Us->nnz != cntU + cntUblk) VFAIL("U-nnz", "U nnz field %ld != counted %lld", (long)Us->nnz, cntU + cntUblk);
    free(cover); free(vext); free(rext); free(uext); free(mark);
    return bad;
#undef VFAIL
}

int lud_extract(const SuperMatrix *L, const SuperMatrix *U, int_t n, lud_t *d)
{
    const SCPformat *Ls = L->Store;
    const NCPformat *Us = U->Store;
    const elem_t *Lv = Ls->nzval, *Uv = Us->nzval;
    d->n = n;
    d->L = xcalloc((size_t)n * n, sizeof(ref_t));
    d->U = xcalloc((size_t)n * n, sizeof(ref_t));
    d->nsuper = Ls->nsuper + 1; d->maxsup = 0; d->nnzL = Ls->nnz; d->nnzU = Us->nnz;
    for (long s = 0; s <= Ls->nsuper; ++s) {
        long fs = Ls->sup_to_colbeg[s], fe = Ls->sup_to_colend[s];
        long long rb = Ls->rowind_colbeg[fs], nsupr = Ls->rowind_colend[fs] - rb;
        if (fe - fs > d->maxsup) d->maxsup = fe - fs;
        for (long j = fs; j < fe; ++j) {
            long long vb = Ls->nzval_colbeg[j];
            for (long long k = 0; k < nsupr; ++k) {
                long r = Ls->rowind[rb + k];
                ref_t v = E2R(Lv[vb + k]);
                if (r <= j) d->U[(size_t)j * n + r] = v;
                else d->L[(size_t)j * n + r] = v;
            }
        }
    }
    for (int_t j = 0; j < n; ++j) {
        d->L[(size_t)j * n + j] = 1.0L;
        for (long long k = Us->colbeg[j]; k < Us->colend[j]; ++k)
            d->U[(size_t)j * n + Us->rowind[k]] = E2R(Uv[k]);
    }
    return 0;
}
void lud_free(lud_t *d) { free(d->L); free(d->U); d->L = d->U = NULL; }

ld check_reconstruction(const ref_t *G, const lud_t *d, const int_t *perm_r, const int_t *perm_c,
                        ld **Wout, ld *growth_out, const char *key)
{
    int_t n = d->n;
    ref_t *M = xcalloc((size_t)n * n, sizeof(ref_t));
    ld *W = xcalloc((size_t)n * n, sizeof(ld));
    ref_t *col = xmalloc((n + 1) * sizeof(ref_t));
    ld maxG = 0, maxW = 0, worst = 0;
    for (int_t j = 0; j < n; ++j) for (int_t i = 0; i < n; ++i) {
        ref_t g = G[(size_t)j * n + i];
        M[(size_t)perm_c[j] * n + perm_r[i]] = g;
        if (rabs(g) > maxG) maxG = rabs(g);
    }
    ld gm = gam((ld)n);
    long nviol = 0;
    for (int_t j = 0; j < n; ++j) {
        ld *Wc = W + (size_t)j * n;
        for (int_t i = 0; i < n; ++i) col[i] = 0;
        for (int_t k = 0; k <= j; ++k) {
            ref_t u = d->U[(size_t)j * n + k];
            if (u == 0) continue;
            ld au = rabs(u);
            const ref_t *Lk = d->L + (size_t)k * n;
            for (int_t i = k; i < n; ++i) if (Lk[i] != 0) { col[i] += Lk[i] * u; Wc[i] += rabs(Lk[i]) * au; }
        }
        for (int_t i = 0; i < n; ++i) {
            ref_t m = M[(size_t)j * n + i];
            ld e = rabs(m - col[i]);
            ld w = Wc[i];
            if (w > maxW) maxW = w;
            /* + absolute term for products/quotients that underflowed in the working precision: n eta for the sum,
               eta*|u_jj| for the division that produced l_ij (x8 covers complex arithmetic) */
            ld bound = gm * w + LD_EPS * (n + 2) * (w + rabs(m)) + 8 * (ld)(n + 1) * HX_UFL * (1 + rabs(d->U[(size_t)j * n + j]));
            ld ratio;
            if (e == 0) ratio = 0;
            else if (bound == 0) ratio = 1e300L;
            else ratio = e / bound;
            if (ratio > worst) worst = ratio;
            if (ratio > 1.0L && nviol++ == 0 && key)
                jo_fail(key, "|Pr*A*Pc - L*U| entry (%ld,%ld): error %.3Le exceeds gamma(n)*|L||U| = %.3Le (ratio %.3Le)",
                        (long)i, (long)j, e, gm * w, ratio);
        }
    }
    free(M); free(col);
    if (growth_out) *growth_out = maxG > 0 ? maxW / maxG : 0;
    if (Wout) *Wout = W; else free(W);
    return worst;
}

/* threshold test as the code states it: abs1(pivot) >= u * abs1(candidate) for every candidate of the step;
   candidate_i = l_ij * u_jj.  For real types this is |l_ij| <= 1/u. */
ld check_multipliers(const lud_t *d, ld u, const char *key)
{
    int_t n = d->n;
    ld worst = 0; long nv = 0;
    if (u <= 0) return 0;
    for (int_t j = 0; j < n; ++j) {
        ref_t p = d->U[(size_t)j * n + j];
        ld ap = rabs1(p);
        for (int_t i = j + 1; i < n; ++i) {
            ref_t l = d->L[(size_t)j * n + i];
            if (l == 0) continue;
            ld ac = IS_COMPLEX ? rabs1(l * p) : rabs(l) * ap;
            ld ratio = (ap > 0) ? (u * ac) / (ap * (1.0L + 16.0L * UROUND)) : 1e300L;
            if (ratio > worst) worst = ratio;
            if (ratio > 1.0L && nv++ == 0 && key)
                jo_fail(key, "multiplier L(%ld,%ld): u*|candidate| = %.6Le exceeds |pivot| = %.6Le (u=%.3Lg, |l|=%.6Le)",
                        (long)i, (long)j, u * ac, ap, u, rabs(l));
        }
    }
    return worst;
}

ld check_residual(const ref_t *G, int_t n, int trans, const elem_t *X, int_t ldx, const elem_t *B0, int_t ldb,
                  int_t nrhs, const ld *W, const int_t *perm_r, const int_t *perm_c, ld gk, const char *key)
{
    ld wmax = 0; if (W) for (size_t q = 0; q < (size_t)n * n; ++q) if (W[q] > wmax) wmax = W[q];
    ld worst = 0; long nv = 0;
    ref_t *r = xmalloc((n + 1) * sizeof(ref_t));
    ld *bnd = xmalloc((n + 1) * sizeof(ld)), *aax = xmalloc((n + 1) * sizeof(ld));
    for (int_t c = 0; c < nrhs; ++c) {
        for (int_t i = 0; i < n; ++i) { r[i] = E2R(B0[(size_t)c * ldb + i]); bnd[i] = 0; aax[i] = rabs(r[i]); }
        for (int_t j = 0; j < n; ++j) for (int_t i = 0; i < n; ++i) {
            ref_t g = G[(size_t)j * n + i];
            ld w = W[(size_t)perm_c[j] * n + perm_r[i]];
            if (g == 0 && w == 0) continue;
            if (trans == 0 || trans == 3) {         /* row i, column j of op(G)=G or conj(G) */
                ref_t x = E2R(X[(size_t)c * ldx + j]);
                ref_t gg = (trans == 3) ? conjl(g) : g;
                r[i] -= gg * x; bnd[i] += w * rabs(x); aax[i] += rabs(g) * rabs(x);
            } else {                  /* op(G) = G^T or G^H: entry (j,i) */
                ref_t x = E2R(X[(size_t)c * ldx + i]);
                ref_t gg = (trans == 2) ? conjl(g) : g;
                r[j] -= gg * x; bnd[j] += w * rabs(x); aax[j] += rabs(g) * rabs(x);
            }
        }
        for (int_t i = 0; i < n; ++i) {
            ld e = rabs(r[i]);
            /* + products and quotients that underflowed in the working precision during the two triangular solves (each one an
               absolute error of at most HX_UFL, carried through rows of |L||U|): only matters for data near the denormal range */
            ld bound = gk * bnd[i] + LD_EPS * (n + 2) * aax[i] + 16.0L * (ld)(n + 1) * (ld)(n + 1) * HX_UFL * (1.0L + wmax);
            ld ratio = e == 0 ? 0 : (bound == 0 ? 1e300L : e / bound);
            if (!(e == e)) ratio = 1e300L;     /* NaN */
            if (ratio > worst) worst = ratio;
            if (ratio > 1.0L && nv++ == 0 && key)
                jo_fail(key, "residual row %ld rhs %ld: |b - op(A)x| = %.3Le exceeds bound %.3Le (ratio %.3Le)",
                        (long)i, (long)c, e, gk * bnd[i], ratio);
        }
    }
    free(r); free(bnd); free(aax);
    return worst;
}

int ref_solve(const ref_t *A, int_t n, ref_t *X, int_t nrhs)
{
    ref_t *M = xmalloc((size_t)n * n * sizeof(ref_t) + 16);
    memcpy(M, A, (size_t)n * n * sizeof(ref_t));
    for (int_t k = 0; k < n; ++k) {
        int_t p = k; ld best = rabs(M[(size_t)k * n + k]);
        for (int_t i = k + 1; i < n; ++i) if (rabs(M[(size_t)k * n + i]) > best) { best = rabs(M[(size_t)k * n + i]); p = i; }
        if (best == 0) { free(M); return (int)k + 1; }
        if (p != k) {
            for (int_t j = 0; j < n; ++j) { ref_t t = M[(size_t)j * n + k]; M[(size_t)j * n + k] = M[(size_t)j * n + p]; M[(size_t)j * n + p] = t; }
            for (int_t c = 0; c < nrhs; ++c) { ref_t t = X[(size_t)c * n + k]; X[(size_t)c * n + k] = X[(size_t)c * n + p]; X[(size_t)c * n + p] = t; }
        }
        ref_t piv = M[(size_t)k * n + k];
        for (int_t i = k + 1; i < n; ++i) {
            ref_t l = M[(size_t)k * n + i] / piv;
            if (l == 0) continue;
            M[(size_t)k * n + i] = l;
            for (int_t j = k + 1; j < n; ++j) M[(size_t)j * n + i] -= l * M[(size_t)j * n + k];
            for (int_t c = 0; c < nrhs; ++c) X[(size_t)c * n + i] -= l * X[(size_t)c * n + k];
        }
    }
    for (int_t c = 0; c < nrhs; ++c)
        for (int_t k = n - 1; k >= 0; --k) {
            ref_t s = X[(size_t)c * n + k];
            for (int_t j = k + 1; j < n; ++j) s -= M[(size_t)j * n + k] * X[(size_t)c * n + j];
            X[(size_t)c * n + k] = s / M[(size_t)k * n + k];
        }
    free(M);
    return 0;
}

int ref_inverse(const ref_t *A, int_t n, ref_t *Ainv)
{
    memset(Ainv, 0, (size_t)n * n * sizeof(ref_t));
    for (int_t i = 0; i < n; ++i) Ainv[(size_t)i * n + i] = 1.0L;
    return ref_solve(A, n, Ainv, n);
}

/* augmenting-path matching over columns of G*Pc taken in order */
static int aug(const csc_t *G, int_t col, int_t *rowmatch, int_t *visited, int_t stamp)
{
    for (int_t k = G->colptr[col]; k < G->colptr[col + 1]; ++k) {
        int_t i = G->rowind[k];
        if (visited[i] == stamp) continue;
        visited[i] = stamp;
        if (rowmatch[i] < 0 || aug(G, rowmatch[i], rowmatch, visited, stamp)) { rowmatch[i] = col; return 1; }
    }
    return 0;
}
long struct_rank_prefix(const csc_t *G, const int_t *perm_c)
{
    int_t n = G->n, m = G->m;
    int_t *inv = xmalloc((n + 1) * sizeof(int_t)), *rowmatch = xmalloc((m + 1) * sizeof(int_t)), *vis = xcalloc(m + 1, sizeof(int_t));
    for (int_t j = 0; j < n; ++j) inv[perm_c[j]] = j;
    for (int_t i = 0; i < m; ++i) rowmatch[i] = -1;
    long res = 0;
    for (int_t k = 0; k < n; ++k)
        if (!aug(G, inv[k], rowmatch, vis, k + 1)) { res = k + 1; break; }
    free(inv); free(rowmatch); free(vis);
    return res;
}

/* info > 0: the returned objects only have to be safe to inspect: every begin/end pair must be
   walkable (the reads themselves are checked by ASan when that build runs) */
int walk_LU(const SuperMatrix *L, const SuperMatrix *U, int_t n, const char *kp)
{
    char key[128]; int bad = 0;
#define WFAIL(sub, ...) do { snprintf(key, sizeof key, "%s|%s", kp, sub); jo_fail(key, __VA_ARGS__); ++bad; } while (0)
    if (L->Stype != SLU_SCP || U->Stype != SLU_NCP || L->nrow != n || L->ncol != n || U->nrow != n || U->ncol != n || !L->Store || !U->Store) {
        WFAIL("header", "L/U headers are not usable (Stype %d/%d)", L->Stype, U->Stype); return bad; }
    if (n == 0) return 0;
    const SCPformat *Ls = L->Store; const NCPformat *Us = U->Store;
    const elem_t *Lv = Ls->nzval, *Uv = Us->nzval;
    long ns = (long)Ls->nsuper + 1;
    if (ns < 1 || ns > n) { WFAIL("nsuper-range", "nsuper+1 = %ld", ns); return bad; }
    volatile ld sink = 0;
    for (long s = 0; s < ns; ++s) {
        long fs = Ls->sup_to_colbeg[s], fe = Ls->sup_to_colend[s];
        if (fs < 0 || fe > n || fe <= fs) { WFAIL("sup-range", "supernode %ld has column range [%ld,%ld)", s, fs, fe); continue; }
        long long rb = Ls->rowind_colbeg[fs], re = Ls->rowind_colend[fs];
        if (rb < 0 || re < rb || re - rb > 4LL * n + 16) { WFAIL("rowlist-extent", "supernode %ld: row list [%lld,%lld)", s, rb, re); continue; }
        for (long long k = rb; k < re; ++k) sink += Ls->rowind[k];
        for (long j = fs; j < fe; ++j) {
            long long vb = Ls->nzval_colbeg[j], ve = Ls->nzval_colend[j];
            if (vb < 0 || ve < vb || ve - vb > 4LL * n + 16) { WFAIL("nzval-extent", "column %ld: value extent [%lld,%lld)", j, vb, ve); continue; }
            for (long long k = vb; k < ve; ++k) sink += rabs(E2R(Lv[k]));
        }
    }
    for (int_t j = 0; j < n; ++j) {
        long long b = Us->colbeg[j], e = Us->colend[j];
        if (b < 0 || e < b || e - b > 4LL * n + 16) { WFAIL("U-extent", "U column %ld extent [%lld,%lld)", (long)j, b, e); continue; }
        for (long long k = b; k < e; ++k) sink += rabs(E2R(Uv[k])) + Us->rowind[k];
    }
    (void)sink;
    return bad;
#undef WFAIL
}
