#!/usr/bin/env python3
"""Insert the SLU_MT_VERIF hooks into /repo/SRC (add-only, idempotent refusal).

Every insertion is a whole guarded block placed between two complete
statements (never between a brace-less if/for/while and its body).  Anchors
are regular expressions on the file text; the number of matches is checked so
that a drifted source makes the script fail instead of mis-placing a hook.
Precision-specific files are handled by substituting the precision letter.
"""
import re, sys, os

SRC = sys.argv[1] if len(sys.argv) > 1 else '/repo/SRC'
G0 = '#ifdef SLU_MT_VERIF\n'
G1 = '#endif /* SLU_MT_VERIF */\n'
INC = G0 + '#include "slu_mt_verif.h"\n' + G1

def block(txt):
    return G0 + txt.rstrip('\n') + '\n' + G1

# (file, regex, expected matches, which occurrence (index or None=all), where, text)
H = []
def hook(f, rx, n, which, where, txt):
    # leading indentation of an anchor is matched loosely; match counts are verified
    rx = re.sub(r'^\^(\\t| )+', lambda m: '^[ \\t]*', rx)
    H.append((f, rx, n, which, where, txt))

SPIN = 'pxgstrf_shared->spin_locks'
# ---------------- p?gstrf_thread.c ----------------
F = 'p@gstrf_thread.c'
hook(F, r'^\tpxgstrf_scheduler\(pnum, n, etree, &jcol, &bcol, pxgstrf_shared\);\n', 1, 0, 'before',
     '\tSLUV_YIELD(SLUV_Y_LOOP_TOP);\n')
hook(F, r'^\tpxgstrf_scheduler\(pnum, n, etree, &jcol, &bcol, pxgstrf_shared\);\n', 1, 0, 'after',
     '\tSLUV_YIELD(SLUV_Y_SCHED_EXIT);\n')
hook(F, r'^\t    w = pxgstrf_shared->pan_status\[jcol\]\.size;\n', 1, 0, 'after',
     '\t    SLUV_EVENT(SLUV_E_PANEL_BEGIN, pnum, jcol, w, pxgstrf_shared->pan_status[jcol].type, 0, 0);\n')
hook(F, r'^\t\t/\* Release the whole relaxed supernode \*/\n', 1, 0, 'before',
     '\t\tSLUV_YIELD(SLUV_Y_BEFORE_RELEASE);\n'
     '\t\tfor (jj = jcol; jj < jcol + w; ++jj) {\n'
     '\t\t    SLUV_EVENT(SLUV_E_COL_RELEASE, pnum, jj, jcol, 0, 0, 0);\n'
     '\t\t    SLUV_TSAN_RELEASE(&pxgstrf_shared->spin_locks[jj]);\n'
     '\t\t}\n')
hook(F, r'^\t\tpxgstrf_mark_busy_descends\(pnum, jcol, etree, pxgstrf_shared, \n\t\t\t\t\t   &bcol, lbusy\);\n', 1, 0, 'after',
     '\t\tSLUV_EVENT(SLUV_E_MARK_BUSY, pnum, jcol, bcol, 0, 0, 0);\n')
hook(F, r'^\t\t    k = \(jj - jcol\) \* m; /\* index into w-wide arrays \*/\n', 1, 0, 'after',
     '\t\t    SLUV_EVENT(SLUV_E_COL_BEGIN, pnum, jj, jcol, 0, 0, 0);\n')
hook(F, r'^ +/\* release column "jj", so that the other processes\n', 1, 0, 'before',
     '\t\t    SLUV_YIELD(SLUV_Y_AFTER_PIVOT);\n'
     '\t\t    SLUV_EVENT(SLUV_E_COL_PIVOTED, pnum, jj, pivrow, *info, 0, 0);\n'
     '\t\t    SLUV_YIELD(SLUV_Y_BEFORE_RELEASE);\n'
     '\t\t    SLUV_EVENT(SLUV_E_COL_RELEASE, pnum, jj, jcol, 0, 0, 0);\n'
     '\t\t    SLUV_TSAN_RELEASE(&pxgstrf_shared->spin_locks[jj]);\n')
hook(F, r'^\t\t    pxgstrf_shared->spin_locks\[jj\] = 0;\n', 2, 1, 'after',
     '\t\t    SLUV_YIELD(SLUV_Y_AFTER_RELEASE);\n')
hook(F, r'^\t\t    /\* Prune columns \[0:jj-1\] using column jj \*/\n', 1, 0, 'before',
     '\t\t    SLUV_YIELD(SLUV_Y_BEFORE_PRUNE);\n')
hook(F, r'^\t    STATE\( jcol \) = DONE; /\* Release panel jcol\. \*/\n', 1, 0, 'before',
     '\t    SLUV_YIELD(SLUV_Y_BEFORE_DONE);\n'
     '\t    SLUV_EVENT(SLUV_E_PANEL_DONE, pnum, jcol, w, 0, 0, 0);\n'
     '\t    SLUV_TSAN_RELEASE(&pxgstrf_shared->pan_status[jcol]);\n')

# ---------------- p?gstrf_factor_snode.c ----------------
F = 'p@gstrf_factor_snode.c'
hook(F, r'^    kcol = jcol \+ pxgstrf_shared->pan_status\[jcol\]\.size;\n', 1, 0, 'after',
     '    SLUV_EVENT(SLUV_E_SNODE_BEGIN, pnum, jcol, kcol, 0, 0, 0);\n')
hook(F, r'^\tnextlu \+= nsupr;\n', 1, 0, 'before',
     '\tSLUV_EVENT(SLUV_E_COL_PIVOTED, pnum, icol, pivrow, *info, 0, 0);\n')

# ---------------- pxgstrf_scheduler.c ----------------
F = 'pxgstrf_scheduler.c'
hook(F, r'^\t    while \( STATE\( \*bcol \) == DONE \) \*bcol = DADPANEL \(\*bcol\);\n', 1, 0, 'after',
     '\t    {   /* tell TSan that DONE panels on the climbed path were acquired */\n'
     '\t\tint_t sluv_b = fb_cols[jcol];\n'
     '\t\twhile ( sluv_b != *bcol ) {\n'
     '\t\t    SLUV_TSAN_ACQUIRE(&pxgstrf_shared->pan_status[sluv_b]);\n'
     '\t\t    sluv_b = DADPANEL (sluv_b);\n'
     '\t\t}\n'
     '\t    }\n')
hook(F, r'^    \*cur_pan = jcol;\n', 1, 0, 'after',
     '    SLUV_EVENT(SLUV_E_SCHED, pnum, jcol, (jcol != EMPTY ? *bcol : EMPTY),\n'
     '\t       pxgstrf_shared->tasks_remain, taskq->head,\n'
     '\t       ((long)taskq->count << 32) | (long)(taskq->tail & 0x7fffffff));\n')

# ---------------- p?gstrf_panel_bmod.c ----------------
F = 'p@gstrf_panel_bmod.c'
hook(F, r'^\tif \( nsupc >= colblk && nrow >= rowblk \) \{\n', 2, 0, 'before',
     '\tSLUV_EVENT(SLUV_E_SN_READ_BEGIN, pnum, jcol, fsupc, krep, w, 0);\n')
hook(F, r'^\tif \( nsupc >= colblk && nrow >= rowblk \) \{\n', 2, 1, 'before',
     '\tSLUV_EVENT(SLUV_E_SN_READ_BEGIN, pnum, jcol, fsupc, krep, w, 1);\n')
hook(F, r'^#ifdef PREDICT_OPT\n\tpmod = Gstat->procstat\[pnum\]\.fcops - pmod;\n', 2, None, 'before',
     '\tSLUV_EVENT(SLUV_E_SN_READ_END, pnum, jcol, fsupc, krep, 0, 0);\n')
hook(F, r'^\tif \( pxgstrf_shared->spin_locks\[kcol\] \) \{\n', 2, 0, 'before',
     '\tSLUV_YIELD(SLUV_Y_BEFORE_WAIT);\n')
hook(F, r'^\t    await\( &pxgstrf_shared->spin_locks\[kcol\] \);\n', 1, 0, 'before',
     '\t    SLUV_EVENT(SLUV_E_WAIT_BEGIN, pnum, jcol, kcol, 0, 0, 0);\n')
hook(F, r'^\t\tawait \( &pxgstrf_shared->spin_locks\[kcol\] \);\n', 1, 0, 'before',
     '\t\tSLUV_EVENT(SLUV_E_WAIT_BEGIN, pnum, jcol, kcol, 0, 0, 0);\n')
hook(F, r'^        /\* Find leading column "fsupc" in the supernode that\n', 1, 0, 'before',
     '\tSLUV_TSAN_ACQUIRE(&pxgstrf_shared->spin_locks[kcol]);\n'
     '\tSLUV_EVENT(SLUV_E_WAIT_END, pnum, jcol, kcol, 0, 0, 0);\n')
hook(F, r'^\t    dadsupno = supno\[kcol\];\n', 1, 0, 'before',
     '\t    SLUV_TSAN_ACQUIRE(&pxgstrf_shared->spin_locks[kcol]);\n'
     '\t    SLUV_EVENT(SLUV_E_WAIT_END, pnum, jcol, kcol, 0, 0, 0);\n')
hook(F, r'^\t    krep = SUPER_REP\( ksupno \);\n', 1, 0, 'before',
     '\t    SLUV_TSAN_IGNORE_READS_BEGIN(); /* speculative; re-validated after the wait */\n')
hook(F, r'^\t    krep = SUPER_REP\( ksupno \);\n', 1, 0, 'after',
     '\t    SLUV_TSAN_IGNORE_READS_END();\n')
hook(F, r'^\t    /\* Append new fills in panel_lsub\[\*,jj\]\. \*/\n', 2, 1, 'before',
     '\t    SLUV_EVENT(SLUV_E_SUB_READ_BEGIN, pnum, jcol, krep, xlsub[krep], xlsub_end[krep], 0);\n'
     '\t    SLUV_YIELD(SLUV_Y_SUB_READ);\n')
hook(F, r'^\t    w_lsub_end\[jj - jcol\] = j;\n#endif\n', 1, 0, 'before',
     '\t    SLUV_EVENT(SLUV_E_SUB_READ_END, pnum, jcol, krep, 0, 0, 0);\n')

# ---------------- pxgstrf_pruneL.c ----------------
F = 'pxgstrf_pruneL.c'
hook(F, r'^\t     \t/\* Do a quicksort-type partition \*/\n', 1, 0, 'before',
     '\t\tSLUV_EVENT(SLUV_E_PRUNE_BEGIN, -1, irep, jcol, kmin, kmax, 0);\n'
     '\t\tSLUV_YIELD(SLUV_Y_PRUNE_SCAN);\n')
hook(F, r'^\t\t        lsub\[kmin\] = lsub\[kmax\];\n', 1, 0, 'after',
     '\t\t        SLUV_YIELD(SLUV_Y_MID_SWAP);\n')
hook(F, r'^\t        xprune\[irep\] = kmin;\t/\* Pruning \*/\n', 1, 0, 'before',
     '\t\tSLUV_EVENT(SLUV_E_PRUNE_END, -1, irep, jcol, kmin, 0, 0);\n'
     '\t\tSLUV_TSAN_RELEASE(&ispruned[irep]);\n')

# ---------------- ispruned acquire sites ----------------
for F, n in (('p@gstrf_panel_dfs.c', 2), ('p@gstrf_column_dfs.c', 2), ('pxgstrf_super_bnd_dfs.c', 2)):
    hook(F, r'^[ \t]+if \( ispruned\[krep\] \) \{\n', n, None, 'after',
         '\t\t    SLUV_TSAN_ACQUIRE(&ispruned[krep]);\n')

# ---------------- p?gstrf_column_dfs.c / snode_dfs ----------------
F = 'p@gstrf_column_dfs.c'
hook(F, r'^\txsup\[nsuper\] = jcol;\n', 1, 0, 'after',
     '\tSLUV_EVENT(SLUV_E_NSUPER, pnum, jcol, nsuper, 0, 0, 0);\n'
     '\tSLUV_YIELD(SLUV_Y_NSUPER_LSUB);\n')
hook(F, r'^\txlsub\[jcol\] = ito;\n', 1, 0, 'after',
     '\tSLUV_EVENT(SLUV_E_LSUB_ALLOC, pnum, jcol, ito, 2*no_lsub, 0, 0);\n')
F = 'p@gstrf_snode_dfs.c'
hook(F, r'^    Glu->xsup_end\[nsuper\] = kcol \+ 1;\n', 1, 0, 'after',
     '    SLUV_EVENT(SLUV_E_NSUPER, pnum, jcol, nsuper, 0, 0, 0);\n'
     '    SLUV_YIELD(SLUV_Y_NSUPER_LSUB);\n')
hook(F, r'^    xlsub\[jcol\] = ito;\n', 1, 0, 'after',
     '    SLUV_EVENT(SLUV_E_LSUB_ALLOC, pnum, jcol, ito, 2*nextl, 0, 0);\n')

# ---------------- p?gstrf_pivotL.c ----------------
F = 'p@gstrf_pivotL.c'
hook(F, r'^    if \( pivptr != nsupc \) \{\n', 1, 0, 'after',
     '\tSLUV_EVENT(SLUV_E_SN_XCHG, pnum, jcol, fsupc, pivptr, 0, 0);\n')

# ---------------- pmemory.c / p?memory.c ----------------
F = 'pmemory.c'
hook(F, r'^\tGlu->map_in_sup\[fsupc\] \+= num;\n', 1, 0, 'after',
     '\tSLUV_EVENT(SLUV_E_ALLOC_LUSUP, pnum, jcol, fsupc, *prev_next, num, Glu->nzlumax);\n')
hook(F, r'^\tGlu->nextlu = new_next;\n', 1, 0, 'after',
     '\tSLUV_EVENT(SLUV_E_DYN_SETMAP, pnum, jcol, nextlu, num, Glu->nzlumax, 0);\n')
F = 'p@memory.c'
hook(F, r'^    free \(marker\);\n    return nextpos;\n', 1, 0, 'before',
     '    SLUV_SLOTS(n, map_in_sup, Glu->dynamic_snode_bound == YES, nextpos);\n')

# ---------------- p?gstrf_thread_init.c ----------------
F = 'p@gstrf_thread_init.c'
hook(F, r'^#if \( PRNTlevel>=1 \)\n    printf\("\*\* p@gstrf_thread_init\(\) called\\n"\);\n', 1, 0, 'before',
     '    /* Words the algorithm deliberately accesses without locks: they are the\n'
     '       synchronisation flags themselves (the happens-before edges they carry\n'
     '       are declared where they are stored/loaded) or monotone hints. */\n'
     '    SLUV_TSAN_BENIGN(&pxgstrf_shared->tasks_remain, sizeof(pxgstrf_shared->tasks_remain), "tasks_remain");\n'
     '    SLUV_TSAN_BENIGN(pxgstrf_shared->spin_locks, n * sizeof(int_t), "spin_locks");\n'
     '    SLUV_TSAN_BENIGN(pxgstrf_shared->pan_status, (n+1) * sizeof(pan_status_t), "pan_status");\n'
     '    SLUV_TSAN_BENIGN(ispruned, n * sizeof(int_t), "ispruned");\n'
     '    SLUV_TSAN_BENIGN(xprune, n * sizeof(int_t), "xprune");\n'
     '    SLUV_TSAN_BENIGN(perm_r, n * sizeof(int_t), "perm_r");\n'
     '    SLUV_TSAN_BENIGN(&options->usepr, sizeof(options->usepr), "usepr");\n'
     '    SLUV_TSAN_BENIGN(&Glu.nextu, sizeof(Glu.nextu), "nextu");\n')

INCLUDE_AFTER = {   # file -> regex of the include line after which our include goes
}

def expand(fn):
    if '@' in fn:
        return [(fn.replace('@', p), p) for p in 'sdcz']
    return [(fn, None)]

def main():
    files = {}
    order = []
    for (f, rx, n, which, where, txt) in H:
        for fn, p in expand(f):
            files.setdefault(fn, []).append((rx.replace('@', p) if p else rx, n, which, where, txt))
    nins = 0
    for fn, hooks in files.items():
        path = os.path.join(SRC, fn)
        s = open(path).read()
        if 'SLU_MT_VERIF' in s:
            print('already hooked:', fn); continue
        # collect insert positions on the ORIGINAL text
        ins = []
        for (rx, n, which, where, txt) in hooks:
            ms = list(re.finditer(rx, s, re.M))
            if len(ms) != n:
                sys.exit('%s: anchor %r matched %d times, expected %d' % (fn, rx, len(ms), n))
            sel = ms if which is None else [ms[which]]
            for m in sel:
                pos = m.start() if where == 'before' else m.end()
                ins.append((pos, len(ins), block(txt)))
        # include line: after the first #include "slu_mt_?defs.h"
        m = re.search(r'^#include "slu_mt_[sdcz]defs\.h"\n', s, re.M)
        if not m:
            sys.exit('%s: no defs include' % fn)
        ins.append((m.end(), -1, INC))
        ins.sort()
        out = []; last = 0
        for pos, _, t in ins:
            out.append(s[last:pos]); out.append(t); last = pos
        out.append(s[last:])
        open(path, 'w').write(''.join(out))
        nins += len(ins)
        print('hooked %-28s %d insertions' % (fn, len(ins)))
    print('total insertions', nins)

main()
