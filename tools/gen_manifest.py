#!/usr/bin/env python3
"""Regenerates /verif/MANIFEST.json from the table below (kept in one place so the
file always validates)."""
import json, os, subprocess
V = '/verif'
props = [json.loads(l) for l in open(V + '/properties.jsonl')]
hooks_commits = subprocess.run(['git', '-C', '/repo', 'log', '--format=%h %s'], capture_output=True, text=True).stdout.splitlines()
hook_c = [l.split()[0] for l in hooks_commits if 'verif hooks' in l]
fix_c = [l for l in hooks_commits if l.split(' ', 1)[1].startswith('fix:')]

CHECKS = {
 'C01': dict(tech='runtime oracle over executions: extended-precision residual bound from the returned factors, under perturbed schedules',
   text='Thousands of seeded driver calls (4 precisions, NC/NR, orderings, 1..64 threads, tuned-small panels/supernodes, schedule perturbation at hook points) are judged by an extended-precision componentwise oracle that evaluates exactly the stated bound from the factors returned, plus bit-comparison of A. Exploration level: reach comes from workload diversity and perturbation, not enumeration.',
   note='Trusts the harness generators/oracle (long double arithmetic, 2^-63), the event hooks, and that matrices stay inside the normal floating range. Held = held on the executions reported in the evidence file.', ref='5/C01'),
 'C02': dict(tech='runtime oracle: dense extended-precision reconstruction, multiplier threshold and diagonal-preference checks on every execution',
   text='Direct factorization calls over random/structured families with all thresholds and tuning parameters, plus every structurally nonsingular 0/1 pattern n<=3 (quick) / n<=4 (thorough) under every forced pivot order; each returned factorization is reconstructed in extended precision against gamma(n)|L||U|, multipliers and diagonal preference are judged from the factors.',
   note='Diagonal candidates within 16 ulp of the threshold are not judged; complex magnitudes use |re|+|im| as the library does.', ref='5/C02'),
 'C03': dict(tech='ThreadSanitizer with happens-before annotations of the flag protocol + offline event-log checker + numerical consequence + exhaustive interleaving execution of the real scheduler code on small forests',
   text='Three monitors on the real threaded code: (1) gcc TSan, one factorization per process, told exactly the flag edges the algorithm relies on, so unordered accesses to L/U data are reported even when the bad timing did not occur; (2) an offline checker over the merged event log (consume-after-release, no interchange or pruning of rows being read, each update once, scheduler children rule, wait path = busy chain); (3) the C02 reconstruction of the same runs; (4) the library\'s own ParallelInit / pxgstrf_scheduler / pxgstrf_mark_busy_descends executed by a harness under every interleaving of simulated workers for every postordered forest with n<=5 columns (quick; n<=7 and a sample of n=8 thorough), asserting the children rule, the busy chain and the queue/tasks invariants after every action.',
   note='Sampled interleavings (perturbation, oversubscription) for the threaded runs, x86-TSO only; TSan trusts the annotated flag words. The explorer executes the scheduler code sequentially (atomicity of its critical section is taken from the lock; TSan covers that part) and memoises states by a 64-bit hash.', ref='5/C03'),
 'C04': dict(tech='in-process lost-wake-up monitor (all workers empty-handed and polling with no event in between) + watchdog + exactly-once counters from the event log + thread census + exhaustive interleaving execution of the real scheduler code on small forests',
   text='Stress runs with up to 64 threads on 16 cores, long injected delays at scheduler exit/column release, singular inputs; the event log proves per execution that every column/panel was processed exactly once by one thread, tasks_remain counts down to 0 exactly at the last take, queue indices stay within n, and /proc/self/task is unchanged; a watch thread inside the probe reports the state "every worker\'s latest scheduler call came back empty, each has polled again since, no event in between" (from which the call cannot return, whatever the timing); two watchdog time-outs are a hang witness; bushy elimination trees (stars, k-ary, caterpillars) repeated 40x per case put many siblings under one parent; the scheduler explorer of C03 asserts tasks_remain = untaken panels, queue bounds, exactly-once and absence of states without an enabled action for all small forests.',
   note='"Eventually" is decided as "no lost-wake-up state and returned within the watchdog on every executed schedule".', ref='5/C04'),
 'C05': dict(tech='AddressSanitizer+UBSan build of the whole library under hostile workloads + slot-bound shadow monitor at the L-supernode allocation hook',
   text='ASan/UBSan executions of drivers and direct factorization in static and dynamic storage modes, all forced pivot orders on small patterns, too-small size estimates (must end in the library diagnostic); symmetric-mode factorizations of structurally unsymmetric inputs; the slot monitor checks every L-supernode allocation against the slot reserved by ?PresetMap/DynamicSetMap, the one overflow ASan cannot see; no returned supernode may be wider than sp_ienv(3) (the assumption behind the layout of the per-thread TriTmp/MatvecTmp strips).',
   note='ASan guards heap block ends only; intra-block overruns of the per-thread work arrays are caught through the width invariant and through their consequences.', ref='5/C05'),
 'C09': dict(tech='structural validator run on every returned factorization (first-time and refactorization) under perturbation of supernode numbering vs. subscript allocation',
   text='Every successful factorization of the C01/C02-style workloads and of refactorization histories (new values, other thread counts, pivot re-use) is passed through a validator of the SCP/NCP structures and permutations; perturbation mode 4 delays threads between NewNsuper and the LSUB allocation, and the event log counts how often numbering and storage order actually differed.',
   note='Array capacities are not known to the validator: extents are checked for sign, length, stride and disjointness, and ASan covers the ends.', ref='5/C09'),
 'C06': dict(tech='ASan build (one case per process) + plain build of both drivers on constructed singular inputs; info compared with an independent structural/exact oracle',
   text='Singular inputs built so that exact zeros are guaranteed in floating point (stored-zero column/row, isolated Hall blocks, isolated rank-1 +-1 blocks) and others where only safety is claimed (empty rows/columns, non-isolated Hall violators); oracle: normal return, 0<info<=n, expected index from construction / augmenting-path matching on the returned perm_c, B/X untouched, returned L/U walkable under ASan and destroyable.',
   note='For inputs whose elimination reaches a column with no candidate row the library corrupts memory (known finding); those classes are reported as KNOWN-FINDING, the exact-zero classes are fully enforced.', ref='5/C06'),
 'C07': dict(tech='runtime oracle: extended-precision componentwise backward error of the returned X for the original system, exact comparison of A_out/B_out with the reported scaling',
   text='Expert-driver executions over trans x storage x {DOFACT, EQUILIBRATE, FACTORED reuse with new B and another trans} x forced equilibration outcomes x 4 precisions x threads; matrices with prescribed singular values, element-growth (Wilkinson) matrices, exact integer systems with exactly zero solution components and right-hand sides with zero / tiny columns; output arguments (equed, R, C, rcond, pivot growth) are poisoned before the call; under the premises kappa*growth*n*u<=1e-3 and cond(A^-1)*sigma(A,x)*(n+1)*u<=0.1 (Skeel) 4(n+1)u is enforced, and the unrefined LU bound 8*gamma(3n)|L||U||x| in every case.',
   note='info in {0, n+1} is asserted for kappa_1*n*u <= 0.01; complex + row-wise + CONJ was wrong on the pinned tree and is repaired (fix bd86211).', ref='5/C07'),
 'C12': dict(tech='runtime oracle: explicit extended-precision inverse, two-sided bounds on rcond, recomputed pivot growth',
   text='Expert-driver executions on matrices with prescribed condition numbers up to 1e-3/eps in both norms (all trans x storage), thresholds u in {1,0.5,0.1}; rcond is bounded below by 1/kappa and above by the estimators own first iterate (and by a weaker bound that tolerates the LAPACK non-monotone last step); info=n+1 iff rcond<eps; pivot growth recomputed from the returned factors; both also for calls that re-use the factors (fact = FACTORED) with poisoned output scalars.',
   note='The literal e/n upper bound is violated by the LAPACK-derived estimator on rare inputs (known finding).', ref='5/C12'),
 'C13': dict(tech='runtime oracle: reported berr vs extended-precision backward error of the returned X; ferr vs exact solution of the equilibrated system',
   text='Expert-driver executions with nrhs>=1 up to cond 0.1/eps; berr must equal the true componentwise backward error (in the |re|+|im| magnitude the routine uses) within 4(nz+6)u, be O((n+1)u) under the premises (incl. the Skeel condition), and 40*ferr must dominate the true relative error measured in the equilibrated system against an extended-precision reference with two refinement steps.',
   note='ferr is judged in the equilibrated system: the driver does not rescale it to the original variables (LAPACK does).', ref='5/C13'),
 'C19': dict(tech='runtime oracle: dense extended-precision definitions of the kernels on random inputs; ASan on a subset',
   text='Direct calls of sp_?gemv/sp_?gemm (N/T/C, special alpha/beta, strides), sp_?trsv for all (uplo,trans) on factors produced by real multithreaded factorizations, ?langs for all norms, conversion/copy/permuted-view constructors, all four precisions.',
   note='Operands include exact zeros (sparse, unit and zero vectors) and all stride combinations; strides on the scatter/gather side were unimplemented on the pinned tree and are repaired (fix 09e039d).', ref='5/C19'),
 'C10': dict(tech='runtime oracle: independent quadratic reference (explicit pattern of (A*Pc)^T(A*Pc), naive symbolic elimination) on enumerated and random patterns; ASan on a subset',
   text='get_perm_c(0..3) and sp_colorder in both modes on every 0/1 pattern with n<=3 (quick; n=4 sampled in thorough) and on random/structured patterns with empty/dense rows and columns; the reported etree must equal the reference parent function of the final A*Pc, be postordered (contiguous subtrees), and the returned ordering may differ from the callers only by a relabelling of its elimination tree; A*Pc must alias A; chains of 10^5..4*10^6 columns (1-3 interleaved) are run under the default 8 MB stack with linear-time checks.',
   note='Single-threaded code: no schedule quantifier. Column counts are not range-checked (degenerate for structurally singular patterns).', ref='5/C10'),
 'C11': dict(tech='runtime oracle: exact/ulp-level recomputation of scale factors, ratios and the apply rule; exact comparison of scaled data',
   text='?gsequ/?laqgs called directly on matrices of powers of two spanning the whole exponent range (clipping paths, zero rows/columns, 1x1, rectangular) and equilibrating expert-driver calls; every returned quantity is recomputed in extended precision and compared at ulp level; the driver outputs must equal the inputs scaled by the reported factors.',
   note='Working-precision underflow of R*A is replicated (a column whose scaled entries all underflow is reported as zero, as in LAPACK).', ref='5/C11'),
 'C15': dict(tech='table-driven fault injection on arguments; error-handler interception, checksums and heap balance around each call',
   text='Every single documented violation, all pairs of violations, consistently-short and empty B/X, both scale vectors illegal, and every violation once more on a call without right-hand sides, for both drivers and six computational routines in four precisions; the harness replaces xerbla_ (a documented override point) to record (routine, position) and checks info, exactly-once reporting, byte-level immutability of all arguments, heap balance (ASan allocator statistics or mallinfo2) and thread census.',
   note='Positions are transcribed from the routines header comments; B/X type checks are only expected from routines that document them.', ref='5/C15'),
 'C08': dict(tech='runtime oracle over call histories: per-call reconstruction/residual/validator, extended-precision replay of the old pivot order, checksums around reuse calls',
   text='Random call sequences on one pattern (first factor, refactor with/without pivot reuse and new values, reuse-solves, destroy and start over) with thread counts varying between calls and both memory modes; after every call the factors are reconstructed against the values current at that call; with pivot reuse an extended-precision replay decides whether perm_r must be identical or must change; reuse-solves must leave A, L, U and permutations bit-identical.',
   note='Histories are sampled (length <=4 quick, <=10 thorough); replay bands of 1e-6 around the threshold are undecidable and counted.', ref='5/C08'),
 'C14': dict(tech='fault enumeration: every allocation request failed in turn behind USER_MALLOC; caller workspaces of graded (unaligned) sizes under ASan; work-array monitor on hook events (live arrays pairwise disjoint, inside the buffer, disjoint from the factors); used-extent overlap check of all L/U arrays; bitwise comparison of memory modes',
   text='For each small configuration a counting run measures the K allocation requests of a driver call and request k and all later ones fail for every k=1..K (ASan+UBSan build); caller workspaces from 0 to 2x the query estimate are malloc blocks with red zones; lwork=-1 runs on sentinel-filled L/U; sufficient-workspace 1-thread runs must equal the internally allocated run bit for bit and keep every L/U array inside the buffer; 2-8-thread runs in buffers of unaligned size with stretched windows between the work-array requests are watched by the work-array monitor; U / L-subscript capacities near the real need and refactorizations in the same query-sized buffer with more threads must either fit or end in info > n / the library diagnostic.',
   note='Six defects of this property found on the pinned tree are repaired (work-array re-alignment race, worker counting, lwork % 8, unchecked allocations, MemInit with a too small buffer); every workspace size from 0 to sufficient now returns info > n or completes.', ref='5/C14'),
 'C17': dict(tech='LeakSanitizer + sanitizer allocator statistics around repeated call sequences of every call class',
   text='Call sequences by class (factor/solve/destroy, refactor chains, complete simple and expert driver calls incl. row-wise storage with re-use of factors and symmetric mode, singular calls, workspace queries through p?gstrf and through the driver, user workspace, diagonal matrices with empty adjacency structures) are repeated 3, 5 and 50 times in one ASan process; the live heap after repetition k must equal that after repetition 2, LeakSanitizer names any block left at exit, the thread census is unchanged.',
   note='One thread count per case (the C runtime caches per-thread structures); allocation-failure returns are covered by C14 runs without leak accounting.', ref='5/C17'),
 'C18': dict(tech='differential runtime check: output digest of a probe call in a fresh process vs after prefix histories in the same process',
   text='Probe calls (first factorization + solve, complete driver calls; 1 thread, built-in kernels) are run fresh and after single and paired prefix histories (other sizes/families/tuning, refactor chains, sufficient and insufficient user workspace, singular calls, queries, 8-thread runs); every output byte (for driver calls incl. equed, R, C, rcond, ferr, berr, pivot growth) is digested and must be identical; probes also run after 60-150-call histories, with zero right-hand sides, and as factor+refactor pairs in a query-sized caller workspace after histories of user-workspace calls that failed at swept buffer sizes (multi-thread probes: only the schedule-independent outputs are compared).',
   note='Prefixes in another precision are not exercised (one precision per probe binary).', ref='5/C18'),
 'C16': dict(tech='runtime oracle (reconstruction, perm_r == perm_c) + slot-bound shadow monitor + ASan/TSan builds on symmetric-mode workloads',
   text='Symmetric-mode factorizations (direct and through the expert driver) of row/column diagonally dominant matrices with symmetric and unsymmetric patterns (incl. pendant+clique gadgets where the A+A^T prediction and the column structure differ most, and grounded unit-weight Laplacians with exact magnitude ties), threshold 0, ordering on A^T+A, 1..8 threads, perturbed; diagonal pivots are asserted as perm_r == perm_c, the fill-versus-prediction claim by the slot monitor at every L allocation, C01/C02 by the extended-precision oracles.',
   note='Dominance guarantees non-vanishing diagonal pivots; other symmetric-mode inputs are outside the statement.', ref='5/C16'),
 'C20': dict(tech='differential runtime check against an independent python writer; readers run in child processes (plain and ASan) on generated files',
   text='Files in the three formats with random legal edit descriptors (incl. fields that fill their whole width), random printable title/key text, D/E exponents, optional right-hand-side sections, complex data, rectangular shapes and empty columns are generated from the format definitions and fed to the readers on stdin; dimensions, structure and every value (bit pattern of the correctly rounded printed decimal) must match.',
   note='Symmetric / skew-symmetric / Hermitian files must come back as the full expansion (the pinned tree returned the stored triangle: repaired, fix 7c17638); the order of entries inside a column of the expansion is free; for single precision the value obtained by double rounding through binary64 is accepted as well.', ref='5/C20'),
}
checks = []
for pid, d in CHECKS.items():
    checks.append({
        'property_id': pid,
        'quick_cmd': 'python3 /verif/check.py %s --tier quick' % pid,
        'thorough_cmd': 'python3 /verif/check.py %s --tier thorough' % pid,
        'evidence_file': '/verif/evidence/%s.json' % pid,
        'replay_cmd_template': 'python3 /verif/check.py %s --replay {path}' % pid,
        'engine': 'probe+monitors',
        'level_claimed': {'category': 'fault_enumeration' if pid == 'C14' else 'exploration', 'text': d['text'], 'design_ref': 'DESIGN.md section ' + d['ref']},
        'level_note': d['note'],
        'technique': d['tech'],
    })
na = [{'property_id': p['id'], 'reason': 'check not built yet in this session (design in DESIGN.md section 5); not claimed'}
      for p in props if p['id'] not in CHECKS]
m = {'version': 1,
     'setup_cmd': 'python3 /verif/check.py --setup',
     'hooks': {'guard': 'SLU_MT_VERIF',
               'enable': 'checks compile /repo/SRC/*.c and /repo/CBLAS/*.c from the working tree with -DSLU_MT_VERIF into /verif/.cache (vlib/build.py)',
               'baseline_off_cmd': 'cmake --build /repo/_build && ctest --test-dir /repo/_build -j8 --timeout 900',
               'source_commits': hook_c, 'add_only': True},
     'engines': [{'name': 'probe+monitors', 'path': '/verif/harness', 'serves_properties': sorted(CHECKS),
                  'kind_free_text': 'C probe programs linked against sanitizer/plain builds of the library with event, perturbation and slot hooks; python driver check.py'}],
     'checks': checks,
     'not_applicable': na,
     'notes': 'fix commits in /repo: ' + '; '.join(fix_c)}
json.dump(m, open(V + '/MANIFEST.json', 'w'), indent=1)
print('checks:', sorted(CHECKS), 'unclaimed:', len(na))
