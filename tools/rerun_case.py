#!/usr/bin/env python3
"""Regenerate case <id> of a property's workload for a seed/tier and run it N times (schedule-dependent witnesses).
usage: rerun_case.py Cxx <seed> <case-id> [N] [--tier quick|thorough]"""
import sys, os, json, collections
sys.path.insert(0, os.path.dirname(os.path.dirname(os.path.abspath(__file__))))
from vlib import props as P, run as R, build as B
a = sys.argv[1:]
tier = 'quick'
if '--tier' in a: i = a.index('--tier'); tier = a[i + 1]; del a[i:i + 2]
pid, seed, cid = a[0], int(a[1]), int(a[2]); N = int(a[3]) if len(a) > 3 else 20
ctx = P.Ctx(pid, tier, seed)
r = R.Runner(timeout_case=60); ctx.workdir = r.tmp
items = P.PROPS[pid]['gen'](ctx)
m, c = items[cid]
print(m, c)
exe = B.build(m['variant'])[m['prec']]
cnt = collections.Counter(); first = None
for k in range(N):
    c2 = dict(c); c2['id'] = k
    res = r.run_batch(exe, [c2], True, m.get('env'), None, 1.0)[k]
    fails = (res.get('result') or {}).get('fails', [])
    for f in fails:
        cnt[f['key']] += 1
        if first is None: first = f
    if res.get('rc') or res.get('timeout'): cnt['rc=%s to=%s' % (res.get('rc'), res.get('timeout'))] += 1
print(N, 'runs:', dict(cnt)); print(first)
r.close()
