#!/bin/sh
# run every check of a tier for the given seeds; one summary line per (property, seed)
tier=${1:-quick}; shift
seeds=${*:-0}
cd "$(dirname "$0")/.."
for s in $seeds; do
  for i in 01 02 03 04 05 06 07 08 09 10 11 12 13 14 15 16 17 18 19 20; do
    t0=$(date +%s)
    VERIF_SEED=$s python3 check.py C$i --tier $tier > .cache/all_${tier}_C${i}_$s.log 2>&1; rc=$?
    echo "C$i seed=$s rc=$rc $(( $(date +%s) - t0 ))s viol=$(grep -c '^VIOLATION' .cache/all_${tier}_C${i}_$s.log) known=$(grep -c '^KNOWN-FINDING' .cache/all_${tier}_C${i}_$s.log)"
  done
done
