#!/bin/sh
# every thorough check once (seed from VERIF_SEED, default 0); one summary line per property
cd "$(dirname "$0")/.."
[ -n "$VP_RUN_REPO" ] && export VERIF_REPO="$VP_RUN_REPO"
python3 check.py --setup > .cache_thorough_setup.log 2>&1
for i in ${*:-01 02 03 04 05 06 07 08 09 10 11 12 13 14 15 16 17 18 19 20}; do
  t0=$(date +%s)
  python3 check.py C$i --tier thorough > thorough_C$i.log 2>&1; rc=$?
  echo "C$i rc=$rc $(( $(date +%s) - t0 ))s viol=$(grep -c '^VIOLATION' thorough_C$i.log) known=$(grep -c '^KNOWN-FINDING' thorough_C$i.log) $(grep -m1 'INCONCLUSIVE' thorough_C$i.log | cut -c1-120)"
done
