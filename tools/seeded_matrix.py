#!/usr/bin/env python3
"""Run the registered quick check of the broken property (and optional extra checks) against every seeded change under
/verif/seeded/<id>/ and record the outcome in seeded/<id>/meta.json and seeded/RESULTS.md.

usage: seeded_matrix.py [id ...] [--also C03,C05] [--seed N] [--tier quick|thorough]

For each change: /repo must be clean; files named in meta.base_checkout are first taken from that commit (a change
written against code that a later fix: commit rewrote), the patch is applied, checks run, `git checkout HEAD -- .` undoes it."""
import sys, os, json, subprocess, re, time

VERIF = os.path.dirname(os.path.dirname(os.path.abspath(__file__)))
SEEDED = os.path.join(VERIF, 'seeded')

def sh(*a, **kw):
    return subprocess.run(list(a), capture_output=True, text=True, **kw)

def main():
    args = sys.argv[1:]
    also = []; seed = '0'; tier = 'quick'
    if '--also' in args: i = args.index('--also'); also = args[i + 1].split(','); del args[i:i + 2]
    if '--seed' in args: i = args.index('--seed'); seed = args[i + 1]; del args[i:i + 2]
    if '--tier' in args: i = args.index('--tier'); tier = args[i + 1]; del args[i:i + 2]
    ids = args or sorted(d for d in os.listdir(SEEDED) if os.path.isdir(os.path.join(SEEDED, d)))
    rows = []
    for sid in ids:
        d = os.path.join(SEEDED, sid)
        meta = json.load(open(os.path.join(d, 'meta.json')))
        st = sh('git', '-C', '/repo', 'status', '--porcelain', '--untracked-files=no').stdout.strip()
        if st:
            sys.exit('/repo not clean:\n' + st)
        try:
            bc = meta.get('base_checkout')
            if bc:
                r = sh('git', '-C', '/repo', 'checkout', bc['commit'], '--', *bc['paths'])
                assert r.returncode == 0, r.stderr
            r = sh('git', '-C', '/repo', 'apply', os.path.join(d, 'patch.diff'))
            if r.returncode:
                print(sid, 'patch does not apply:', r.stderr.strip()); rows.append((sid, meta['property'], 'patch does not apply', {})); continue
            res = {}
            for p in [meta['property']] + [a for a in also if a != meta['property']]:
                env = dict(os.environ); env['VERIF_SEED'] = seed
                t0 = time.time()
                o = sh('python3', os.path.join(VERIF, 'check.py'), p, '--tier', tier, env=env)
                keys = re.findall(r'key=(\S+) occurrences=(\d+)', o.stdout)
                res[p] = {'rc': o.returncode, 'keys': ['%s x%s' % k for k in keys[:8]], 'secs': round(time.time() - t0, 1)}
                print(sid, p, 'rc=%d' % o.returncode, ', '.join(res[p]['keys'][:4]))
        finally:
            sh('git', '-C', '/repo', 'checkout', 'HEAD', '--', '.')
        meta['detected_by'] = {p: v['keys'] for p, v in res.items() if v['rc'] == 1}
        meta['missed_by'] = [p for p, v in res.items() if v['rc'] != 1]
        meta['checked'] = {'tier': tier, 'seed': int(seed), 'verif_commit': sh('git', '-C', VERIF, 'rev-parse', '--short', 'HEAD').stdout.strip(),
                           'repo_head': sh('git', '-C', '/repo', 'rev-parse', '--short', 'HEAD').stdout.strip(), 'runs': res}
        json.dump(meta, open(os.path.join(d, 'meta.json'), 'w'), indent=1)
        rows.append((sid, meta['property'], 'DETECTED' if meta['property'] in meta['detected_by'] else 'MISSED', res))
    # rows of changes that were not run this time are kept as they are
    lines = {}
    rp = os.path.join(SEEDED, 'RESULTS.md')
    if os.path.exists(rp):
        for l in open(rp):
            m = re.match(r'\| (C\d\d[a-z]?) \|', l)
            if m: lines[m.group(1)] = l
    for sid, prop, verdict, res in rows:
        own = res.get(prop, {})
        others = ', '.join('%s (%s)' % (p, v['keys'][0] if v['keys'] else '') for p, v in res.items() if p != prop and v['rc'] == 1)
        lines[sid] = '| %s | %s | %s | %s | %s |\n' % (sid, prop, verdict, '; '.join(own.get('keys', [])[:3]), others)
    with open(rp, 'w') as f:
        f.write('# Seeded changes versus the registered checks (%s tier, VERIF_SEED=%s; rows are from the latest run of each change)\n\n' % (tier, seed))
        f.write('| change | breaks | own check | violation keys reported (first few) | other checks that fire |\n|---|---|---|---|---|\n')
        for sid in sorted(lines): f.write(lines[sid])
    print(open(rp).read()); return
    with open(os.path.join(SEEDED, 'RESULTS.md'), 'w') as f:
        f.write('# Seeded changes versus the registered checks (%s tier, VERIF_SEED=%s)\n\n' % (tier, seed))
        f.write('| change | breaks | own check | violation keys reported (first few) | other checks that fire |\n|---|---|---|---|---|\n')
        for sid, prop, verdict, res in rows:
            own = res.get(prop, {})
            others = ', '.join('%s (%s)' % (p, v['keys'][0] if v['keys'] else '') for p, v in res.items() if p != prop and v['rc'] == 1)
            f.write('| %s | %s | %s | %s | %s |\n' % (sid, prop, verdict, '; '.join(own.get('keys', [])[:3]), others))
    print(open(os.path.join(SEEDED, 'RESULTS.md')).read())

if __name__ == '__main__':
    main()
