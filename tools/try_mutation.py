#!/usr/bin/env python3
"""Apply a seeded change to /repo, run the named checks (quick tier), undo the change.
usage: try_mutation.py <patch.diff> <Cxx> [<Cxx> ...] [--seed N] [--tier quick|thorough]"""
import subprocess, sys, os, re
args = sys.argv[1:]
seed = '0'; tier = 'quick'
if '--seed' in args: i = args.index('--seed'); seed = args[i + 1]; del args[i:i + 2]
if '--tier' in args: i = args.index('--tier'); tier = args[i + 1]; del args[i:i + 2]
base = None
if '--base' in args: i = args.index('--base'); base = args[i + 1]; del args[i:i + 2]   # take the files the patch touches from this commit first
patch = os.path.abspath(args[0]); props = args[1:]
st = subprocess.run(['git', '-C', '/repo', 'status', '--porcelain', '--untracked-files=no'], capture_output=True, text=True).stdout.strip()
if st:
    sys.exit('/repo has uncommitted changes:\n' + st)
if base:
    files = re.findall(r'^\+\+\+ b/(\S+)', open(patch).read(), re.M)
    subprocess.run(['git', '-C', '/repo', 'checkout', base, '--'] + files, check=True)
r = subprocess.run(['git', '-C', '/repo', 'apply', patch], capture_output=True, text=True)
if r.returncode:
    subprocess.run(['git', '-C', '/repo', 'checkout', 'HEAD', '--', '.'], check=True)
    sys.exit('patch does not apply: ' + r.stderr)
res = {}
try:
    for p in props:
        env = dict(os.environ); env['VERIF_SEED'] = seed
        o = subprocess.run(['python3', '/verif/check.py', p, '--tier', tier], capture_output=True, text=True, env=env)
        keys = re.findall(r'key=(\S+) occurrences=(\d+)', o.stdout)
        res[p] = (o.returncode, keys)
        last = [l for l in o.stdout.splitlines() if l.startswith(p + ' ')]
        print('%s rc=%d %s' % (p, o.returncode, last[-1] if last else ''))
        for k, n in keys[:6]:
            print('     %s x%s' % (k, n))
        if o.returncode == 2:
            print('     ' + '\n     '.join(l for l in o.stdout.splitlines() if 'INCONCL' in l or 'Error' in l)[:600])
finally:
    subprocess.run(['git', '-C', '/repo', 'checkout', 'HEAD', '--', '.'], check=True)
print('DETECTED' if any(rc == 1 for rc, _ in res.values()) else 'MISSED')
