#!/usr/bin/env python3
"""Confirm a seeded change independently and file it under /verif/seeded/<id>/.

usage: verify_seeded.py <id> <dir with patch.diff demo.c run_demo.sh notes.md> [--property Cxx] [--ctest-runs N]

In a scratch worktree of /repo's HEAD (outside /repo and /verif, removed afterwards) it
  1. applies patch.diff,
  2. configures and builds the library the way the baseline does and runs the pinned suite (ctest) N times,
  3. runs the demonstration against the changed tree (must fail) and against a pristine export (must pass),
and writes seeded/<id>/{patch.diff, demo.c, run_demo.sh, notes.md, meta.json} only if all of that holds."""
import sys, os, subprocess, shutil, json, re, time, argparse

VERIF = os.path.dirname(os.path.dirname(os.path.abspath(__file__)))
SCR = '/tmp/vseed'

def sh(cmd, cwd=None, timeout=3600):
    p = subprocess.run(cmd, shell=True, cwd=cwd, capture_output=True, text=True, timeout=timeout)
    return p.returncode, p.stdout + p.stderr

def main():
    ap = argparse.ArgumentParser()
    ap.add_argument('id'); ap.add_argument('src'); ap.add_argument('--property'); ap.add_argument('--ctest-runs', type=int, default=2)
    ap.add_argument('--needs', default=''); ap.add_argument('--demo-runs', type=int, default=2)
    ap.add_argument('--at', default='HEAD', help='commit the change was written against (a later fix: commit rewrote the code it edits)')
    a = ap.parse_args()
    pid = a.property or a.id[:3]
    wt = os.path.join(SCR, a.id); pr = os.path.join(SCR, a.id + '_pristine')
    os.makedirs(SCR, exist_ok=True)
    for d in (wt, pr):
        if os.path.exists(d):
            sh('git -C /repo worktree remove --force %s' % d); shutil.rmtree(d, ignore_errors=True)
    meta = {'id': a.id, 'property': pid, 'ran': []}
    ok = True
    try:
        rc, out = sh('git -C /repo worktree add --detach %s %s' % (wt, a.at))
        assert rc == 0, out
        head = sh('git -C /repo rev-parse --short %s' % a.at)[1].strip()
        meta['repo_head'] = head
        rc, out = sh('git apply %s' % os.path.join(os.path.abspath(a.src), 'patch.diff'), cwd=wt)
        meta['ran'].append({'step': 'git apply patch.diff on HEAD %s' % head, 'rc': rc})
        if rc != 0:
            print('patch does not apply:', out); return 1
        rc, out = sh('cmake -G Ninja -B _build -DCMAKE_BUILD_TYPE=RelWithDebInfo -DCMAKE_C_FLAGS=-Wno-error . && cmake --build _build', cwd=wt)
        meta['ran'].append({'step': 'cmake configure + build (baseline options)', 'rc': rc})
        if rc != 0:
            print('build failed', out[-2000:]); return 1
        passes = []
        for k in range(a.ctest_runs):
            rc, out = sh('ctest --test-dir _build -j8 --timeout 900', cwd=wt)
            m = re.search(r'(\d+)% tests passed, (\d+) tests failed out of (\d+)', out)
            passes.append({'rc': rc, 'summary': m.group(0) if m else out[-300:]})
            if rc != 0: ok = False
        meta['ran'].append({'step': 'pinned suite with the change, %d runs' % a.ctest_runs, 'results': passes})
        shutil.rmtree(os.path.join(wt, '_build'), ignore_errors=True)
        # demo: copy to a private dir so that build output of the demo stays in scratch
        dd = os.path.join(SCR, a.id + '_demo'); shutil.rmtree(dd, ignore_errors=True); os.makedirs(dd)
        for f in ('demo.c', 'run_demo.sh'):
            shutil.copy(os.path.join(a.src, f), dd)
        for f in os.listdir(a.src):
            if f.endswith(('.h', '.py', '.txt', '.rua', '.cua', '.mtx')) and os.path.isfile(os.path.join(a.src, f)):
                shutil.copy(os.path.join(a.src, f), dd)
        os.makedirs(pr)
        rc, out = sh('git -C /repo archive %s | tar -x -C %s' % (a.at, pr))
        fails = []; cleans = []
        for k in range(a.demo_runs):
            rc, out = sh('sh run_demo.sh %s' % wt, cwd=dd, timeout=3000)
            fails.append({'rc': rc, 'tail': out[-400:]})
            rc2, out2 = sh('sh run_demo.sh %s' % pr, cwd=dd, timeout=3000)
            cleans.append({'rc': rc2, 'tail': out2[-200:]})
        meta['ran'].append({'step': 'demo on the changed tree (must fail)', 'results': fails})
        meta['ran'].append({'step': 'demo on a pristine export of HEAD (must pass)', 'results': cleans})
        if not all(f['rc'] != 0 for f in fails): ok = False
        if not all(c['rc'] == 0 for c in cleans): ok = False
    finally:
        sh('git -C /repo worktree remove --force %s' % wt); sh('git -C /repo worktree prune')
        for d in (wt, pr, os.path.join(SCR, a.id + '_demo')):
            shutil.rmtree(d, ignore_errors=True)
    meta['confirmed'] = ok
    print(json.dumps(meta, indent=1)[:3000])
    if not ok:
        print('NOT CONFIRMED'); return 1
    out = os.path.join(VERIF, 'seeded', a.id); os.makedirs(out, exist_ok=True)
    for f in ('patch.diff', 'demo.c', 'run_demo.sh', 'notes.md'):
        if os.path.exists(os.path.join(a.src, f)):
            shutil.copy(os.path.join(a.src, f), out)
    for f in os.listdir(a.src):
        if f.endswith(('.h', '.py', '.txt', '.rua', '.cua', '.mtx')) and os.path.isfile(os.path.join(a.src, f)):
            shutil.copy(os.path.join(a.src, f), out)
    old = {}
    mp = os.path.join(out, 'meta.json')
    if os.path.exists(mp):
        old = json.load(open(mp))
    if a.at != 'HEAD':
        files = sorted(set(re.findall(r'^\+\+\+ b/(\S+)', open(os.path.join(a.src, 'patch.diff')).read(), re.M)))
        meta['base_checkout'] = {'commit': head, 'paths': files, 'why': 'the change edits code that a later fix: commit rewrote; it applies to these files as of this commit'}
    meta['needs_to_manifest'] = a.needs or old.get('needs_to_manifest', '')
    for k in ('detected_by', 'missed_by', 'history'):
        if k in old: meta[k] = old[k]
    json.dump(meta, open(mp, 'w'), indent=1)
    print('CONFIRMED ->', out)
    return 0

if __name__ == '__main__':
    sys.exit(main())
