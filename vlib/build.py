"""Build driver: compiles /repo's current working tree (SRC/*.c + CBLAS/*.c) and
the harness into /verif/.cache, one archive + probe binaries per variant.

Objects are cached by sha256(source bytes + all header bytes + flags), so an
edit to a .c file recompiles that file only and an edit to any header
recompiles everything that can see it.  Nothing depends on mtimes.
"""
import hashlib, os, subprocess, sys, glob, shutil, tempfile, json, time
from concurrent.futures import ThreadPoolExecutor

REPO = os.environ.get('VERIF_REPO', '/repo')
VERIF = os.path.dirname(os.path.dirname(os.path.abspath(__file__)))
CACHE = os.path.join(VERIF, '.cache')
HARNESS = os.path.join(VERIF, 'harness')
NJOBS = int(os.environ.get('VERIF_JOBS', '16'))

BASE_DEFS = ['-DAdd_', '-DSLU_MT_VERIF']

VARIANTS = {
    # name: (cc, cflags, extra link flags, lib defs)
    'plain': ('gcc', ['-O2', '-g', '-D__PTHREAD'], ['-lpthread', '-lm'], []),
    'asan':  ('gcc', ['-O1', '-g', '-fno-omit-frame-pointer', '-fsanitize=address,undefined',
                      '-fno-sanitize-recover=all', '-D__PTHREAD'],
              ['-fsanitize=address,undefined', '-lpthread', '-lm'], []),
    'tsan':  ('gcc', ['-O1', '-g', '-fno-omit-frame-pointer', '-fsanitize=thread', '-D__PTHREAD'],
              ['-fsanitize=thread', '-lpthread', '-lm'], []),
    'vblas': ('gcc', ['-O2', '-g', '-D__PTHREAD', '-DUSE_VENDOR_BLAS'],
              ['/usr/lib/x86_64-linux-gnu/openblas-pthread/libopenblas.a', '-lpthread', '-lm', '-lgfortran'], []),
    'omp':   ('gcc', ['-O2', '-g', '-D__OPENMP', '-fopenmp'], ['-fopenmp', '-lpthread', '-lm'], []),
    'long':  ('gcc', ['-O2', '-g', '-D__PTHREAD', '-D_LONGINT'], ['-lpthread', '-lm'], []),
    # failing-allocator builds: the library's documented USER_MALLOC/USER_FREE override points
    'asan_um': ('gcc', ['-O1', '-g', '-fno-omit-frame-pointer', '-fsanitize=address,undefined',
                        '-fno-sanitize-recover=all', '-D__PTHREAD',
                        '-DUSER_MALLOC=sluv_malloc', '-DUSER_FREE=sluv_free', '-DSLUV_USER_MALLOC',
                        '-include', os.path.join(HARNESS, 'mon_alloc.h')],
                ['-fsanitize=address,undefined', '-lpthread', '-lm'], []),
    'clang_tsan': ('clang-14', ['-O1', '-g', '-fno-omit-frame-pointer', '-fsanitize=thread', '-D__PTHREAD',
                                '-Wno-everything'],
                   ['-fsanitize=thread', '-lpthread', '-lm'], []),
    'clang_asan': ('clang-14', ['-O1', '-g', '-fno-omit-frame-pointer', '-fsanitize=address,undefined',
                                '-fno-sanitize-recover=all', '-D__PTHREAD', '-Wno-everything'],
                   ['-fsanitize=address,undefined', '-lpthread', '-lm'], []),
    # valgrind runs use the plain build
}

PRECS = ['s', 'd', 'c', 'z']

def sha(*parts):
    h = hashlib.sha256()
    for p in parts:
        if isinstance(p, str):
            p = p.encode()
        h.update(p); h.update(b'\0')
    return h.hexdigest()

def _read(path):
    with open(path, 'rb') as f:
        return f.read()

_hdr_cache = {}
def headers_digest(dirs):
    key = tuple(dirs)
    if key in _hdr_cache:
        return _hdr_cache[key]
    h = hashlib.sha256()
    for d in dirs:
        for f in sorted(glob.glob(os.path.join(d, '*.h'))):
            h.update(f.encode()); h.update(_read(f))
    _hdr_cache[key] = h.hexdigest()
    return _hdr_cache[key]

_cc_ver = {}
def cc_version(cc):
    if cc not in _cc_ver:
        _cc_ver[cc] = subprocess.run([cc, '--version'], capture_output=True, text=True).stdout.split('\n')[0]
    return _cc_ver[cc]

def lib_sources():
    src = sorted(glob.glob(os.path.join(REPO, 'SRC', '*.c')))
    # sp_ienv.c and xerbla.c are the two documented user-replaceable routines: the
    # harness supplies its own (as TESTING/ does for sp_ienv).
    src = [f for f in src if os.path.basename(f) not in ('sp_ienv.c', 'xerbla.c')]
    cb = sorted(glob.glob(os.path.join(REPO, 'CBLAS', '*.c')))
    # ?myblas2.c in CBLAS duplicate SRC/?myblas2.c
    cb = [f for f in cb if not os.path.basename(f).endswith('myblas2.c')]
    return src, cb

def compile_one(cc, flags, src, obj_dir, hdig, warn_log):
    key = sha(cc_version(cc), ' '.join(flags), _read(src), hdig, os.path.basename(src))
    obj = os.path.join(obj_dir, key + '.o')
    if not os.path.exists(obj):
        tmp = obj + '.tmp%d' % os.getpid()
        r = subprocess.run([cc] + flags + ['-w', '-c', src, '-o', tmp], capture_output=True, text=True)
        if r.returncode != 0:
            raise RuntimeError('compile failed: %s\n%s' % (src, r.stderr[-4000:]))
        os.replace(tmp, obj)
    return obj

def build_objects(cc, flags, srcs, hdig):
    obj_dir = os.path.join(CACHE, 'obj')
    os.makedirs(obj_dir, exist_ok=True)
    with ThreadPoolExecutor(NJOBS) as ex:
        return list(ex.map(lambda s: compile_one(cc, flags, s, obj_dir, hdig, None), srcs))

def build(variant, precs=PRECS, quiet=True):
    """Returns dict prec -> probe binary path for this variant."""
    t0 = time.time()
    cc, cflags, ldflags, _ = VARIANTS[variant]
    inc = ['-I' + os.path.join(REPO, 'SRC'), '-I' + HARNESS]
    flags = cflags + BASE_DEFS + inc
    hdig = headers_digest([os.path.join(REPO, 'SRC'), os.path.join(REPO, 'CBLAS'), HARNESS])
    src, cb = lib_sources()
    if 'USE_VENDOR_BLAS' in ' '.join(cflags):
        cb = []           # level-1/2 BLAS from the vendor library
    objs = build_objects(cc, flags, src, hdig)
    cb_flags = [f for f in flags]
    objs += build_objects(cc, cb_flags, cb, hdig)
    libkey = sha(*sorted(objs))
    libdir = os.path.join(CACHE, 'lib', variant)
    os.makedirs(libdir, exist_ok=True)
    lib = os.path.join(libdir, 'libslu_%s.a' % libkey[:16])
    if not os.path.exists(lib):
        for old in glob.glob(os.path.join(libdir, 'libslu_*.a')):
            os.unlink(old)
        tmp = lib + '.tmp%d' % os.getpid()
        if os.path.exists(tmp):
            os.unlink(tmp)
        subprocess.run(['ar', 'rcs', tmp] + objs, check=True)
        os.replace(tmp, lib)
    # harness
    hsrc = sorted(glob.glob(os.path.join(HARNESS, '*.c')))
    out = {}
    bindir = os.path.join(CACHE, 'bin', variant)
    os.makedirs(bindir, exist_ok=True)
    for p in precs:
        pflags = flags + ['-DPREC_' + p.upper(), '-DVARIANT_' + variant.upper().replace('-', '_'),
                          '-DVARIANT_NAME="%s"' % variant]
        hobjs = build_objects(cc, pflags, hsrc, hdig)
        bkey = sha(libkey, *sorted(hobjs), ' '.join(ldflags))
        exe = os.path.join(bindir, 'probe_%s_%s' % (p, bkey[:16]))
        if not os.path.exists(exe):
            for old in glob.glob(os.path.join(bindir, 'probe_%s_*' % p)):
                os.unlink(old)
            tmp = exe + '.tmp%d' % os.getpid()
            r = subprocess.run([cc] + cflags + hobjs + [lib] + ldflags + ['-rdynamic', '-ldl', '-o', tmp],
                               capture_output=True, text=True)
            if r.returncode != 0:
                raise RuntimeError('link failed (%s,%s):\n%s' % (variant, p, r.stderr[-4000:]))
            os.replace(tmp, exe)
        out[p] = exe
    if not quiet:
        print('[build] %s: %.1fs' % (variant, time.time() - t0), file=sys.stderr)
    return out

if __name__ == '__main__':
    for v in sys.argv[1:] or ['plain']:
        print(v, build(v, quiet=False))
