"""Independent writers for the three matrix file formats the library reads
(Harwell-Boeing, Rutherford-Boeing, and the column "triplet"/MT format), written
from the format definitions quoted in the readers' header comments.

write_*(rng, cplx, single) -> (text, expect) where expect = dict(m, n, nnz, colptr,
rowind (0-based), vals = list of decimal strings exactly as printed (re, im pairs
for complex), sym = file declares a symmetric/skew/hermitian type)."""
import random, struct
from fractions import Fraction

def rand_pattern(rng, m, n, dens, sym=False):
    cols = []
    for j in range(n):
        rows = [i for i in range(m) if rng.random() < dens and (not sym or i >= j)]
        if not rows and rng.random() < 0.7:
            rows = [rng.randrange(j if sym and j < m else 0, m)] if m > 0 and (not sym or j < m) else []
        cols.append(sorted(set(rows)))
    return cols

def int_fmt(rng, maxval):
    w = len(str(maxval)) + rng.choice([1, 1, 2, 3, 5])
    w = min(w, 14)
    k = rng.choice([kk for kk in (1, 2, 3, 4, 5, 6, 8, 10, 13, 16, 20, 26, 40) if kk * w <= 80])
    return k, w

def fmt_ints(vals, k, w):
    lines = []
    for i in range(0, len(vals), k):
        lines.append(''.join(str(v).rjust(w) for v in vals[i:i + k]))
    return lines

def real_fmt(rng, single):
    """returns (descriptor text, k, w, formatter(value)->field text)"""
    kind = rng.choice(['E', 'E', 'D', 'F', 'PE', 'PD'])
    d = rng.choice([3, 5, 6, 8] if single else [5, 8, 11, 14, 16])
    tight = rng.random() < 0.25      # fields that fill their whole width (legal Fortran output of non-negative data): no blank between values
    if kind in ('E', 'D', 'PE', 'PD'):
        w = d + (6 if kind in ('E', 'D') else 7) if tight else d + rng.choice([8, 9, 10])
        k = rng.choice([kk for kk in (1, 2, 3, 4, 5, 6) if kk * w <= 80])
        ech = 'D' if 'D' in kind else 'E'
        dch = ech               # letter in the descriptor
        if rng.random() < 0.3:
            # on input the E and D edit descriptors are interchangeable: data written with the other exponent letter (either case) is legal
            ech = rng.choice(['D', 'E', 'd', 'e'])
        onep = kind.startswith('P')
        def f(v):
            s = '%.*E' % ((d if onep else d - 1), v)     # a.bcdE+xx
            mant, ex = s.split('E')
            ex = int(ex)
            if not onep:
                # Fortran default: 0.dddddE+xx  (digits shifted, exponent + 1)
                neg = mant.startswith('-')
                digs = mant.replace('-', '').replace('.', '')
                if float(v) == 0.0:
                    out = ('-' if neg else '') + '0.' + digs + ech + '+00'
                else:
                    out = ('-' if neg else '') + '0.' + digs + ech + ('%+03d' % (ex + 1))
            else:
                out = mant + ech + ('%+03d' % ex)
            return out.rjust(w)
        desc = '(%s%d%s%d.%d)' % ('1P' if onep else '', k, dch, w, d)
        if tight:
            f0 = f
            f = lambda v: f0(abs(v))
        return desc, k, w, f
    else:
        w = d + (4 if tight else rng.choice([6, 8]))      # tight: ddd.dddd of a value < 1000 fills the field
        k = rng.choice([kk for kk in (1, 2, 3, 4, 5) if kk * w <= 80])
        def f(v):
            if tight: v = 100.0 + abs(v) % 900.0
            return ('%.*f' % (d, v)).rjust(w)
        return '(%dF%d.%d)' % (k, w, d), k, w, f

def draw_value(rng, fixed):
    if fixed:
        return round(rng.uniform(-999, 999), 6)
    e = rng.choice([0, 0, 0, 1, -1, 3, -3, 7, -7, 12, -12])
    return rng.uniform(-9.999, 9.999) * 10.0 ** e

def field_decimal(txt):
    """the decimal value a fixed-width Fortran field denotes"""
    t = txt.strip().replace('D', 'E').replace('d', 'e')
    return t

def make_matrix(rng, cplx, single, sym=False):
    n = rng.choice([1, 2, 3, 5, 8, 13, 21])
    m = n if (sym or rng.random() < 0.6) else rng.choice([1, 2, 4, 7, 11, 17])
    cols = rand_pattern(rng, m, n, rng.choice([0.15, 0.4, 0.8]), sym)
    colptr = [0]
    rowind = []
    for c in cols:
        rowind += c; colptr.append(len(rowind))
    return m, n, colptr, rowind

def write_hb(rng, cplx, single, rb=False):
    symch = rng.choice(['U'] * 12 + ['R'] * 6 + ['S', 'Z', 'H' if cplx else 'S'])
    sym = symch in ('S', 'Z', 'H')
    m, n, colptr, rowind = make_matrix(rng, cplx, single, sym)
    if symch == 'R' and m == n and n > 1: m = m  # rectangular type with a square shape is legal
    if symch == 'U' and m != n: symch = 'R'
    nnz = len(rowind)
    ck, cw = int_fmt(rng, nnz + 1)
    rk, rw = int_fmt(rng, max(m, 1))
    vdesc, vk, vw, vf = real_fmt(rng, single)
    fixed = 'F' in vdesc
    nreal = nnz * (2 if cplx else 1)
    fields = [vf(draw_value(rng, fixed)) for _ in range(nreal)]
    ptr_lines = fmt_ints([p + 1 for p in colptr], ck, cw)
    ind_lines = fmt_ints([r + 1 for r in rowind], rk, rw)
    val_lines = [''.join(fields[i:i + vk]) for i in range(0, nreal, vk)]
    if nnz == 0:
        ind_lines = []; val_lines = []
    rhs = (not rb) and rng.random() < 0.3
    rhscrd = 0
    rhs_lines = []
    if rhs:
        rdesc, rk2, rw2, rf = real_fmt(rng, single)
        nr = m * (2 if cplx else 1)
        rfields = [rf(draw_value(rng, 'F' in rdesc)) for _ in range(nr)]
        rhs_lines = [''.join(rfields[i:i + rk2]) for i in range(0, nr, rk2)]
        rhscrd = len(rhs_lines)
    tot = len(ptr_lines) + len(ind_lines) + len(val_lines) + rhscrd
    mxtype = ('C' if cplx else 'R') + symch + 'A'
    out = []
    # free text: anything printable may stand in the 72 title and 8 key columns (digits, signs, exponent letters, ...)
    alpha = 'ABCDEFGHIJKLMNOPQRSTUVWXYZabcdefghijklmnopqrstuvwxyz' + '0123456789' * 4 + ' ' * 20 + '.,;:+-*/()[]#=_' + 'EeDd'
    tl = rng.choice([0, 5, 30, 72, 72, 72])
    title = ''.join(rng.choice(alpha) for _ in range(tl))
    if rng.random() < 0.3: title = 'verif generated matrix %d x %d' % (m, n)
    key = ''.join(rng.choice(alpha) for _ in range(8)) if rng.random() < 0.7 else 'VERIFKEY'
    if rb:
        out.append((title.ljust(72) + key)[:80])
        out.append('%14d%14d%14d%14d' % (tot, len(ptr_lines), len(ind_lines), len(val_lines)))
        out.append('%-3s%11s%14d%14d%14d%14d' % (mxtype.lower() if rng.random() < 0.3 else mxtype, '', m, n, nnz, 0))
        out.append('%-16s%-16s%-20s' % ('(%dI%d)' % (ck, cw), '(%dI%d)' % (rk, rw), vdesc))
    else:
        out.append(title.ljust(72) + key)
        out.append('%14d%14d%14d%14d%14d' % (tot, len(ptr_lines), len(ind_lines), len(val_lines), rhscrd))
        out.append('%-3s%11s%14d%14d%14d%14d' % (mxtype, '', m, n, nnz, 0))
        out.append('%-16s%-16s%-20s%-20s' % ('(%dI%d)' % (ck, cw), '(%dI%d)' % (rk, rw), vdesc, rdesc if rhs else ''))
        if rhs:
            out.append('%-3s%11s%14d%14d' % ('F', '', 1, 0))
    out += ptr_lines + ind_lines + val_lines + rhs_lines
    text = '\n'.join(out) + '\n'
    expect = {'m': m, 'n': n, 'nnz': nnz, 'colptr': colptr, 'rowind': rowind, 'vals': [field_decimal(f) for f in fields],
              'sym': symch if sym else '', 'desc': vdesc, 'fmt': 'rb' if rb else 'hb'}
    return text, expect

def write_rb(rng, cplx, single):
    return write_hb(rng, cplx, single, rb=True)

def write_mt(rng, cplx, single):
    m, n, colptr, rowind = make_matrix(rng, cplx, single)
    nnz = len(rowind)
    out = ['verif triplet matrix', '%d %d %d' % (m, n, nnz) if rng.random() < 0.5 else '%d\n%d\n%d' % (m, n, nnz)]
    vals = []
    for j in range(n):
        cnt = colptr[j + 1] - colptr[j]
        out.append(str(cnt))
        for q in range(colptr[j], colptr[j + 1]):
            fs = []
            for _ in range(2 if cplx else 1):
                v = draw_value(rng, rng.random() < 0.3)
                style = rng.choice(['%.6e', '%.15e', '%g', '%.3f', '%.10E'])
                if single: style = rng.choice(['%.6e', '%g', '%.3f'])
                fs.append(style % v)
            vals += fs
            sep = rng.choice([' ', '  ', '\t'])
            out.append(('%d' % (rowind[q] + 1)) + sep + sep.join(fs))
    text = '\n'.join(out) + '\n'
    return text, {'m': m, 'n': n, 'nnz': nnz, 'colptr': colptr, 'rowind': rowind, 'vals': vals, 'sym': '', 'desc': 'free', 'fmt': 'mt'}

# ---- exact rounding helpers -------------------------------------------------
def dec_to_fraction(t):
    t = t.strip().lower()
    if 'e' in t:
        mant, ex = t.split('e'); ex = int(ex)
    else:
        mant, ex = t, 0
    return Fraction(mant) * (Fraction(10) ** ex)

def f32_bits(x):
    return struct.unpack('<I', struct.pack('<f', x))[0]

def f64_bits(x):
    return struct.unpack('<Q', struct.pack('<d', x))[0]

def expected_bits(txt, single):
    """set of acceptable bit patterns: correctly rounded decimal (python float()), and for single precision also the
    double-rounded value float32(float64(text)) that a reader going through atof() produces"""
    d = float(txt)                       # correctly rounded binary64
    if not single:
        return {f64_bits(d)}
    acc = set()
    try:
        acc.add(f32_bits(d))             # double rounding through binary64
    except OverflowError:
        acc.add(0x7f800000 if d > 0 else 0xff800000)
    # correctly rounded binary32 from the exact decimal
    fr = dec_to_fraction(txt)
    if fr == 0:
        acc.add(0 if not txt.strip().startswith('-') else 0x80000000)
        return acc
    lo = struct.unpack('<f', struct.pack('<I', (f32_bits(d) - 1) & 0xffffffff))[0]
    hi = struct.unpack('<f', struct.pack('<I', (f32_bits(d) + 1) & 0xffffffff))[0]
    c = struct.unpack('<f', struct.pack('<f', d))[0]
    best = min((abs(Fraction(v) - fr), v) for v in (lo, c, hi) if v == v and abs(v) != float('inf'))[1]
    acc.add(f32_bits(best))
    return acc
