"""Per-property workloads, judges and coverage accounting."""
import random, hashlib, json, itertools, collections, os

class Ctx:
    def __init__(self, pid, tier, seed):
        self.pid, self.tier, self.seed = pid, tier, seed
        self.quick = (tier != 'thorough')
        self.rng = random.Random('%s/%s/%d' % (pid, tier, seed))

PRECS = ['d', 's', 'z', 'c']

def case_hash(c):
    d = {k: v for k, v in c.items() if k not in ('id', 'dumpdir')}
    return hashlib.sha1(json.dumps(d, sort_keys=True).encode()).hexdigest()

# ----------------------------------------------------------------------------
# generic factorization case generator
# ----------------------------------------------------------------------------
FAMS = ['rand', 'randnd', 'band', 'arrow', 'grid', 'chain', 'star', 'forest', 'dense', 'tree', 'tree']

def pick_n(rng, quick, big=False):
    if quick:
        return rng.choice([1, 2, 3, 4, 5, 7, 9, 12, 16, 20, 25, 30, 36, 44, 52, 60, 75, 90, 120] if not big else [30, 44, 60, 90, 120])
    return rng.choice([1, 2, 3, 4, 5, 7, 9, 12, 16, 20, 25, 30, 36, 44, 52, 60, 75, 90, 120, 150, 200, 250, 300] if not big else [44, 60, 90, 120, 160, 200, 300])

def factor_case(rng, quick, cmd='gstrf', fams=None, nmax=None, pmodes=(0, 1, 2, 3, 4), nps=None, big=False, tuning='small'):
    fam = rng.choice(fams or FAMS)
    n = pick_n(rng, quick, big)
    if nmax:
        n = min(n, nmax)
    if fam == 'dense':
        n = min(n, 40)
    c = {'cmd': cmd, 'fam': fam, 'n': n, 'seed': rng.randrange(1, 1 << 30)}
    if fam in ('rand', 'randnd'):
        c['dens'] = round(min(1.0, rng.choice([1.5, 2.5, 4, 6]) / max(n, 1)), 4)
    elif fam == 'band':
        c['bl'] = rng.choice([1, 2, 3, 5]); c['bu'] = rng.choice([0, 1, 2, 4])
    elif fam == 'arrow':
        c['orient'] = rng.choice([0, 1])
    elif fam == 'chain':
        c['lower'] = rng.choice([0, 1]); c['extra'] = rng.choice([0, 0, 0.1])
    elif fam in ('star', 'forest'):
        c['bs'] = rng.choice([1, 2, 3, 5, 8]); c['ncpl'] = rng.choice([1, 1, 2, 3])
    elif fam == 'tree':
        c['shape'] = rng.choice([0, 0, 1, 2, 3, 4]); c['kary'] = rng.choice([2, 3, 5, 8]); c['xanc'] = rng.choice([0, 0, 0.3])
    # values
    v = rng.random()
    if v < 0.70:
        c['vals'] = 'generic'
    elif v < 0.85:
        c['vals'] = 'hostile'; c['dom'] = 'row'
    else:
        c['vals'] = 'int'; c['dom'] = rng.choice(['row', 'col'])
    if rng.random() < 0.2:
        c['rscale'] = rng.choice([2, 6, 10]); c['cscale'] = rng.choice([0, 3, 8])
    if rng.random() < 0.15:
        c['shufrows'] = 1
    # threads
    c['np'] = rng.choice(nps or [1, 2, 2, 3, 4, 4, 8, 8, 16, n + 3, 40])
    c['ord'] = rng.choice([0, 1, 2, 3])
    # tuning
    if tuning == 'small':
        c['w'] = rng.choice([1, 1, 2, 2, 3, 3, 4, 5, 8, 9, 12, 16, 24])
        c['relax'] = rng.choice([1, 1, 2, 2, 3, 4, 6, 8])
        # a relaxed supernode larger than sp_ienv(3) is a separate input class (known finding, see cfg_cases)
        c['maxsup'] = max(c['relax'], rng.choice([2, 3, 4, 8, 8, 12, 24]))
        c['rowblk'] = rng.choice([1, 2, 4, 200]); c['colblk'] = rng.choice([1, 2, 4, 100])
    # perturbation
    pm = rng.choice(pmodes)
    if pm:
        c['pmode'] = pm; c['pert'] = rng.randrange(1, 1 << 30); c['plevel'] = rng.choice([1, 1, 2, 3])
    return c

def drv_extras(rng, c):
    c['nrhs'] = rng.choice([0, 1, 1, 2, 5])
    c['stype'] = rng.choice(['nc', 'nc', 'nr'])
    if rng.random() < 0.3:
        c['ldpad'] = rng.choice([1, 3])
    if rng.random() < 0.35:
        c['rhs'] = rng.choice(['sparse', 'sparse', 'unit', 'headzero', 'tailzero'])      # exact zeros travel through the triangular solves
    return c

def spread(rng, n, precs=PRECS, weights=(4, 2, 3, 2)):
    return rng.choices(precs, weights=weights, k=n)

# ----------------------------------------------------------------------------
# judging
# ----------------------------------------------------------------------------
ALWAYS = ('crash|', 'hang|')

def relevant(prop, key):
    for p in tuple(prop.get('relevant', ())) + ALWAYS:
        if key.startswith(p):
            return True
    return False

def _judge_core(ctx, prop, r):
    out = []
    c = r['case']; res = r.get('result'); m = r.get('meta', {})
    cmd = c.get('cmd', '?')
    if r.get('deadlock'):
        out.append(('C04|deadlock|all-workers-idle|%s' % cmd, 'the probe\'s watch thread saw a state from which the call cannot return: %s' % r['deadlock']))
        return out
    if r.get('skipped'):
        return out          # not run: the run had already collected its hang witnesses (see vlib/run.py)
    if r.get('hang'):
        out.append(('hang|%s' % cmd, 'no return within the watchdog in two runs; stacks: %s' % (r.get('stderr') or '')[-1500:]))
        return out
    expect = m.get('expect')
    custom = prop.get('judge')
    if custom:
        handled = custom(ctx, r, out)
        if handled:
            return out
    if r.get('timeout'):
        return out
    san = r.get('san')
    err = r.get('stderr') or ''
    if (res is None or r.get('rc', 0) != 0) and not san and 'Storage for' in err and 'Memory allocation failed' in err:
        # the library's documented way out when sp_ienv(6..8) estimates are too small
        r['aborted_with_diagnostic'] = True
    elif res is not None and r.get('rc') == 66 and m.get('variant', '').endswith('tsan'):
        pass      # ThreadSanitizer exit code: the reports themselves are listed below
    elif res is None or r.get('rc', 0) != 0:
        if san:
            key = 'crash|%s|%s:%s|%s' % (cmd, san['tool'], san['kind'], san['top'])
            msg = 'sanitizer report %s %s at %s (frames %s)' % (san['tool'], san['kind'], san['top'], san.get('frames'))
        else:
            key = 'crash|%s|%s' % (cmd, r.get('signal') or ('rc%s' % r.get('rc')))
            msg = 'probe died (%s); stderr tail: %s' % (r.get('signal') or r.get('rc'), (r.get('stderr') or '')[-600:])
        out.append((key, msg))
    for rep in r.get('tsan_reports') or []:
        out.append(('race|%s' % rep['key'], '%s: %s at %s' % (rep['kind'], rep['stacks'], rep['location'])))
    if res:
        for f in res.get('fails', []):
            out.append((f['key'], f['msg']))
    return out

def _any_oom(res):
    # a call of the history returned info > n (bytes allocated + n): tokens like F0, R0, E5856
    n = int(res.get('n', 0) or 0)
    for tok in str(res.get('infos', '')).split(','):
        try:
            if int(tok[1:]) > n + 1: return True
        except ValueError:
            pass
    return False

def judge_record(ctx, prop, r):
    """violations of one record as (key, message); keys get a failing-input-class suffix where one applies"""
    out = _judge_core(ctx, prop, r)
    c = r['case']; m = r.get('meta', {})
    try:
        if 'relax' in c and 'maxsup' in c and int(c['relax']) > int(c['maxsup']):
            out[:] = [(k + '|cfg:relax>maxsuper', msg) for k, msg in out]
        elif c.get('kind') in ('emptycol', 'emptyrow', 'hall', 'hallblock'):
            # elimination reaches a column that has no candidate row at all (known finding)
            out[:] = [(k + '|cfg:no-candidate-row', msg) for k, msg in out]
        elif m.get('class') == 'workspace':
            suff = '|ws:sufficient' if float(c.get('lwfrac', 9)) >= 1.25 else '|ws:insufficient'
            out[:] = [(k + suff, msg) for k, msg in out]
        elif m.get('class') == 'failsize' and (r.get('result') is None or 'oom_info' in r['result'] or _any_oom(r['result'])):
            # a call of the history gave up with info > n (or the process stopped through the abort path) in the middle of the factorization
            out[:] = [(k + '|after-oom', msg) for k, msg in out]
        elif c.get('dyn') and int(c.get('np', 1)) > 1:
            out[:] = [(k + '|cfg:dynamic-snode-store,np>1', msg) for k, msg in out]
        elif c.get('cmd') == 'gssvx' and m.get('prec') in ('c', 'z') and c.get('stype') == 'nr':
            # A**H with row-wise complex storage would need conj(A^T) = a conjugate-no-transpose solve
            t1 = int(c.get('trans', 0)) == 2; t2 = int(c.get('trans2', c.get('trans', 0))) == 2
            out[:] = [((k + '|cfg:complex,row-wise,CONJ') if (k.startswith(('C07|', 'C13|')) and (t2 if '|factored' in k else t1)) else k, msg) for k, msg in out]
    except ValueError:
        pass
    return out

def coverage(ctx, prop, recs):
    nt = prop.get('nontrivial', lambda r: True)
    distinct = set()
    ev = 0
    sums = collections.Counter()
    breakdown = collections.Counter()
    samples = []
    noresult = 0
    for cid in sorted(recs):
        r = recs[cid]; ev += 1
        res = r.get('result')
        if res is None:
            noresult += 1
        try:
            if nt(r):
                distinct.add(case_hash(r['case']))
        except Exception:
            pass
        if res:
            for k in prop.get('counters', ()):
                v = res.get(k)
                if isinstance(v, (int, float)):
                    sums[k] += v
        c = r['case']
        breakdown['%s/%s/%s' % (r['meta']['variant'], r['meta']['prec'], c.get('fam', c.get('cmd')))] += 1
        if len(samples) < 3 and res and nt(r):
            samples.append({'case': {k: v for k, v in c.items() if k != 'dumpdir'}, 'variant': r['meta']['variant'], 'prec': r['meta']['prec'],
                            'observed': {k: res.get(k) for k in list(prop.get('counters', ()))[:12] + ['info', 'n', 'nnz', 'recon', 'resid'] if k in res}})
    cov = {'stopped_by_size_estimate_diagnostic': sum(1 for r in recs.values() if r.get('aborted_with_diagnostic')),
           'evaluations': ev, 'distinct_nontrivial': len(distinct), 'rule': prop.get('rule', ''), 'samples': samples,
           'observed_totals': dict(sums), 'breakdown': dict(breakdown), 'cases_without_result': noresult}
    extra = prop.get('coverage_extra')
    if extra:
        cov.update(extra(ctx, recs))
    return cov

def floors(ctx, prop, cov, recs):
    out = []
    for name, lo in prop.get('floors', {}).items():
        if cov['observed_totals'].get(name, cov.get(name, 0)) < lo:
            out.append('coverage floor missed: %s = %s < %s' % (name, cov['observed_totals'].get(name, cov.get(name, 0)), lo))
    if cov['distinct_nontrivial'] < 2:
        out.append('fewer than 2 distinct non-trivial cases')
    to1 = sum(1 for r in recs.values() if r.get('timeout') and not r.get('hang'))
    if to1:
        out.append('%d case(s) hit the watchdog once' % to1)
    sk = sum(1 for r in recs.values() if r.get('skipped'))
    if sk:
        out.append('%d case(s) were not run after %d watchdog time-outs' % (sk, to1 + sum(1 for r in recs.values() if r.get('hang'))))
    return out

# ----------------------------------------------------------------------------
# property definitions
# ----------------------------------------------------------------------------
PROPS = {}

EV_COUNTERS = ('panels', 'relaxed', 'pipe_takes', 'waits_blocked', 'wait_points', 'busy_upd', 'done_upd', 'prunes', 'prune_swaps',
               'xchg', 'thr_panels', 'ns_mismatch', 'sub_reads', 'ovl_pp', 'ovl_ps', 'sched_none', 'perturbs', 'ev')

def nontrivial_factor(r):
    res = r.get('result') or {}
    c = r['case']
    if c.get('cmd') == 'sched':
        return res.get('model_states', 0) > 100
    if res.get('n', 0) < 4 or res.get('nsuper', 0) < 2:
        return False
    if int(c.get('np', 1)) >= 2 and res.get('thr_panels', 0) < 2:
        return False
    return True

CATALAN = {1: 1, 2: 2, 3: 5, 4: 14, 5: 42, 6: 132, 7: 429, 8: 1430}
def sched_items(ctx):
    """Scheduler explorer cases (harness/cmd_sched.c): the library's own ParallelInit / pxgstrf_scheduler /
    pxgstrf_mark_busy_descends executed under every interleaving of simulated workers, for every postordered forest
    with n columns (Catalan(n) of them) x panel sizes {1,2,3} x relax {1,2,3} x 2..3 workers."""
    items = []
    def add(n, first, count, **kw):
        c = {'cmd': 'sched', 'n': n, 'first': first, 'count': count}; c.update(kw)
        items.append(({'variant': 'plain', 'prec': 'd', 'per_process': True, 'timeout_scale': kw.pop('tscale', 4.0) if 'tscale' in kw else 4.0}, c))
    for n in (1, 2, 3, 4):
        add(n, 0, CATALAN[n])
    for f in range(0, CATALAN[5], 6):
        add(5, f, 6)
    if not ctx.quick:
        for f in range(0, CATALAN[6], 4):
            add(6, f, 4, hbits=24)
        for f in range(0, CATALAN[7]):
            add(7, f, 1, hbits=26)
        # n = 8: every 24th forest, each configuration bounded to 4M states (bound reported as model_truncated_configs)
        for f in range(0, CATALAN[8], 24):
            add(8, f, 1, hbits=26, cap=4000000)
    return items

MODEL_COUNTERS = ('model_forests', 'model_configs', 'model_states', 'model_transitions', 'model_takes', 'model_pipe_takes', 'model_truncated_configs')
RULE_SCHED = ('; scheduler explorer: every interleaving of worker actions (scheduler call, wait point passed, column released joining or starting a '
              'supernode, panel finished, exit) on the library\'s own scheduler code and data, states memoised by a 64-bit hash, for all postordered forests '
              'with n<=5 columns (quick) / n<=7 and a sample of n=8 (thorough) x w in {1,2,3} x relax in {1,2,3} x 2..3 workers')
RULE_FACTOR = ('cases are drawn from seeded generators (family, n, density/shape, values, scaling, ordering, nprocs, w/relax/maxsuper/'
               'rowblk/colblk, perturbation mode+seed); distinct = sha1 of all case parameters; non-trivial = n>=4, >=2 supernodes and, '
               'when nprocs>=2, panels were factored by at least two different threads according to the event log')

# ---- C01 ----
def gen_c01(ctx):
    rng = ctx.rng
    N = 2400 if ctx.quick else 40000
    items = []
    precs = spread(rng, N)
    for i in range(N):
        c = drv_extras(rng, factor_case(rng, ctx.quick, 'gssv', pmodes=(0, 1, 1, 2, 4)))
        items.append(({'variant': 'plain', 'prec': precs[i]}, c))
    # wide panels over narrow supernodes (see C02): skyline / band / dense matrices with panel sizes 12..24 through the driver
    NW = 700 if ctx.quick else 10000
    pv = spread(rng, NW)
    for i in range(NW):
        n = rng.choice([20, 25, 30, 40, 60])
        c = {'cmd': 'gssv', 'fam': rng.choice(['skyline', 'skyline', 'skyline', 'band', 'dense']), 'n': n, 'seed': rng.randrange(1, 1 << 30), 'vals': 'generic', 'dom': rng.choice(['row', 'col']),
             'ldens': rng.choice([1.0, 0.6, 0.3]), 'maxlen': rng.choice([4, 6, 9]), 'bl': 8, 'bu': rng.choice([4, 6]),
             'np': rng.choice([1, 1, 2, 4]), 'ord': rng.choice([0, 0, 0, 1]), 'w': rng.choice([8, 12, 12, 16, 20, 24]), 'relax': rng.choice([1, 2, 4]),
             'maxsup': rng.choice([4, 6, 7, 8, 10]), 'rowblk': rng.choice([2, 4, 200]), 'colblk': rng.choice([2, 4, 100])}
        if c['fam'] == 'dense': c['n'] = min(n, 40)
        c['maxsup'] = max(c['maxsup'], c['relax'])
        if c['np'] > 1: c['pmode'] = rng.choice([0, 1, 2]); c['pert'] = rng.randrange(1, 1 << 30)
        items.append(({'variant': 'plain', 'prec': pv[i]}, drv_extras(rng, c)))
    if not ctx.quick:
        for v in ('vblas', 'omp', 'long'):
            pv = spread(rng, 8000)
            for i in range(8000):
                c = drv_extras(rng, factor_case(rng, False, 'gssv', pmodes=(0, 1, 2) if v != 'omp' else (0,)))
                items.append(({'variant': v, 'prec': pv[i]}, c))
    return items

PROPS['C01'] = dict(gen=gen_c01, relevant=('C01|',), counters=EV_COUNTERS + ('nrhs',), nontrivial=nontrivial_factor, batch=30,
                    rule=RULE_FACTOR + '; oracle: extended-precision residual |B-A*X| <= gamma(3n) (Pr^T|L||U|Pc^T)|X| from the returned factors, A bit-identical',
                    floors={'pipe_takes': 50, 'thr_panels': 200},
                    assumptions=['unit roundoff for c/z bounds uses the standard complex-arithmetic constant 4u',
                                 'matrices are kept inside the normal floating-point range (no under/overflow)'])

# ---- C02 ----
def matchable(bits, n):
    # perfect matching exists in the 0/1 pattern (bit i + j*n)?
    rows = [[i for i in range(n) if (bits >> (i + j * n)) & 1] for j in range(n)]
    match = {}
    def aug(j, seen):
        for i in rows[j]:
            if i in seen: continue
            seen.add(i)
            if i not in match or aug(match[i], seen):
                match[i] = j; return True
        return False
    return all(aug(j, set()) for j in range(n))

def gen_c02(ctx):
    rng = ctx.rng
    items = []
    N = 2000 if ctx.quick else 30000
    precs = spread(rng, N)
    for i in range(N):
        c = factor_case(rng, ctx.quick, 'gstrf')
        c['u'] = rng.choice([1.0, 1.0, 0.5, 0.1, 0.001, 0.0])
        items.append(({'variant': 'plain', 'prec': precs[i]}, c))
    # wide panels over narrow supernodes (panel_size >= 12 so that the halving near the top still leaves >= 6 columns): updates
    # inside a panel from a supernode that began in the previous panel, U segments starting in the middle of the panel
    NW = 1500 if ctx.quick else 20000
    pv = spread(rng, NW)
    for i in range(NW):
        n = rng.choice([20, 25, 30, 40, 60])
        c = {'cmd': 'gstrf', 'fam': rng.choice(['skyline', 'skyline', 'skyline', 'band', 'dense']), 'n': n, 'seed': rng.randrange(1, 1 << 30), 'vals': 'generic', 'dom': rng.choice(['row', 'col']),
             'ldens': rng.choice([1.0, 0.6, 0.3]), 'maxlen': rng.choice([4, 6, 9]), 'bl': 8, 'bu': rng.choice([4, 6]),
             'np': rng.choice([1, 1, 2, 4]), 'ord': rng.choice([0, 0, 0, 1]), 'w': rng.choice([8, 12, 12, 16, 20, 24]), 'relax': rng.choice([1, 2, 4]),
             'maxsup': rng.choice([4, 6, 7, 8, 10]), 'rowblk': rng.choice([2, 4, 200]), 'colblk': rng.choice([2, 4, 100]), 'u': rng.choice([1.0, 0.1, 0.0])}
        if c['fam'] == 'dense': c['n'] = min(n, 40)
        c['maxsup'] = max(c['maxsup'], c['relax'])
        if c['np'] > 1: c['pmode'] = rng.choice([0, 1, 2]); c['pert'] = rng.randrange(1, 1 << 30)
        items.append(({'variant': 'plain', 'prec': pv[i]}, c))
    # exhaustive small family: all structurally nonsingular 0/1 patterns x all forced row orders x P in {1,2}
    nmax = 3 if ctx.quick else 4
    k = 0
    for n in range(1, nmax + 1):
        for bits in range(1 << (n * n)):
            if not matchable(bits, n):
                continue
            for perm in itertools.permutations(range(n)):
                for np_ in (1, 2):
                    if n == 4 and (k % 3) and ctx.quick:
                        k += 1; continue
                    k += 1
                    c = {'cmd': 'gstrf', 'fam': 'bits', 'n': n, 'bits': bits, 'seed': 1 + (k % 97), 'np': np_, 'ord': 0,
                         'usepr': 1, 'u': 0.0, 'fperm': ','.join(map(str, perm)), 'w': 1 + (k % 3), 'relax': 1 + (k // 3 % 3),
                         'maxsup': max(1 + (k // 3 % 3), 2 + k % 3), 'rowblk': 1, 'colblk': 1, 'exh': 1}
                    if np_ == 2:
                        c['pmode'] = 1; c['pert'] = k
                    items.append(({'variant': 'plain', 'prec': PRECS[k % 4]}, c))
    if not ctx.quick:
        pv = spread(rng, 8000)
        for i in range(8000):
            c = factor_case(rng, False, 'gstrf', pmodes=(0, 1, 2))
            c['u'] = rng.choice([1.0, 0.5, 0.1, 0.0])
            items.append(({'variant': 'vblas', 'prec': pv[i]}, c))
    # exact magnitude ties between the diagonal and other candidates at the default threshold u = 1 (unit-valued arrows, bands, grids,
    # trees; natural and computed orderings): a diagonal that EQUALS the column maximum meets the threshold and has to be the pivot.
    # Decided exactly for columns that received no update (their candidates are entries of A), see check_diag_pref.
    NT = 400 if ctx.quick else 5000
    pv = spread(rng, NT)
    for i in range(NT):
        fam = rng.choice(['arrow', 'arrow', 'band', 'grid', 'tree', 'star', 'dense'])
        c = {'cmd': 'gstrf', 'fam': fam, 'n': rng.choice([5, 8, 12, 20, 30, 44]), 'seed': rng.randrange(1, 1 << 30), 'vals': 'ones', 'u': 1.0, 'np': rng.choice([1, 2, 4]), 'ord': rng.choice([0, 0, 1, 2, 3]),
             'w': rng.choice([1, 2, 8]), 'relax': rng.choice([1, 2, 4]), 'rowblk': 200, 'colblk': 100, 'bl': rng.choice([1, 2]), 'bu': rng.choice([1, 2]), 'bs': 2, 'ncpl': 1, 'shape': rng.choice([0, 1, 2]), 'kary': 3,
             'ties': 1}
        c['maxsup'] = max(c['relax'], 8)
        if c['np'] > 1: c['pmode'] = rng.choice([0, 1]); c['pert'] = rng.randrange(1, 1 << 30)
        items.append(({'variant': 'plain', 'prec': pv[i]}, c))
    return items

def nontrivial_c02(r):
    if r['case'].get('exh'):
        return (r.get('result') or {}).get('info') == 0 and int(r['case']['n']) >= 2
    return nontrivial_factor(r)

PROPS['C02'] = dict(gen=gen_c02, relevant=('C02|',), counters=EV_COUNTERS + ('diag_checked', 'diag_undecided', 'diag_ties', 'usepr_kept'),
                    nontrivial=nontrivial_c02, batch=40,
                    rule=RULE_FACTOR + '; plus every structurally nonsingular 0/1 pattern with n<=3 (quick) / n<=4 (thorough) under every forced row order '
                    '(usepr, u=0) with P in {1,2} (non-trivial there: info=0 and n>=2); oracle: |Pr*A*Pc-L*U| <= gamma(n)|L||U| in extended precision, '
                    'threshold test on every multiplier, diagonal preference judged from the factors',
                    floors={'pipe_takes': 50, 'diag_checked': 1000},
                    assumptions=['complex pivots are compared in the |re|+|im| magnitude the library uses; the multiplier claim is checked in that magnitude',
                                 'diagonal candidates within 16 ulp of the threshold are counted as undecidable, not judged'])

# ---- C03 ----
PIPE_FAMS = ['chain', 'band', 'arrow', 'forest', 'star', 'grid', 'rand']

def gen_c03(ctx):
    rng = ctx.rng
    items = []
    # (1) TSan with happens-before annotations: one factorization per process
    NT = 220 if ctx.quick else 4000
    pv = spread(rng, NT, weights=(5, 1, 2, 1))
    for i in range(NT):
        c = factor_case(rng, True, 'gstrf', fams=PIPE_FAMS, nmax=80, pmodes=(1, 2, 3, 1), nps=[2, 3, 4, 8], big=False)
        c['n'] = max(c['n'], 12)
        c['w'] = rng.choice([1, 2, 3]); c['relax'] = rng.choice([1, 2, 3]); c['maxsup'] = max(c['maxsup'], c['relax']); c['oracle'] = 0
        items.append(({'variant': 'tsan', 'prec': pv[i], 'per_process': True, 'timeout_scale': 2.0}, c))
    # (2) event-log checker on the plain build, perturbed and oversubscribed
    NE = 1500 if ctx.quick else 25000
    pv = spread(rng, NE)
    for i in range(NE):
        c = factor_case(rng, ctx.quick, 'gstrf', fams=PIPE_FAMS, pmodes=(1, 2, 3, 3, 5), nps=[2, 3, 4, 8, 16, 40], big=rng.random() < 0.5)
        c['n'] = max(c['n'], 8)
        c['w'] = rng.choice([1, 2, 3, 4]); c['relax'] = rng.choice([1, 2, 3, 4]); c['maxsup'] = max(c['maxsup'], c['relax'])
        items.append(({'variant': 'plain', 'prec': pv[i]}, c))
    items += sched_items(ctx)
    return items

PROPS['C03'] = dict(gen=gen_c03, relevant=('C03|', 'race|', 'C02|reconstruction'), counters=EV_COUNTERS + MODEL_COUNTERS, nontrivial=nontrivial_factor, batch=25,
                    rule=RULE_FACTOR + '; monitors: (1) gcc ThreadSanitizer with the happens-before annotations of the flag protocol, one factorization per process; '
                    '(2) offline checker over the merged event log: reads of a supernode only after every column was released, no interchange / pruning '
                    'of rows being read, each update applied once, scheduler children rule and wait path; (3) numerical consequence via the C02 reconstruction' + RULE_SCHED,
                    floors={'pipe_takes': 2000, 'waits_blocked': 500, 'busy_upd': 2000, 'prunes': 500, 'model_states': 1000000},
                    assumptions=['TSan is told that spin_locks/pan_status/ispruned/xprune/perm_r/tasks_remain/usepr/nextu are synchronisation flags (see DESIGN 3.1)',
                                 'x86-64 TSO host: weak-memory reorderings of the flag protocol are out of reach'])

# ---- C04 ----
def gen_c04(ctx):
    rng = ctx.rng
    items = []
    N = 1600 if ctx.quick else 30000
    pv = spread(rng, N)
    for i in range(N):
        cmd = rng.choice(['gstrf', 'gstrf', 'gssv'])
        c = factor_case(rng, ctx.quick, cmd, pmodes=(1, 2, 5, 5, 0), nps=[1, 2, 3, 4, 8, 16, 40, 64])
        if cmd == 'gssv':
            drv_extras(rng, c)
        if rng.random() < 0.15 and c['n'] >= 3 and c['fam'] in ('rand', 'band', 'grid', 'arrow'):
            c['zerocol'] = rng.randrange(c['n']); c['expect_singular'] = 1
        elif rng.random() < 0.15 and c['n'] >= 6 and c['fam'] in ('rand', 'band', 'grid', 'arrow', 'tree', 'forest', 'chain'):
            # several exactly singular columns (in relaxed leaves and in regular panels, possibly met by the same worker)
            c['zerocols'] = rng.choice([2, 3, 4, 6]); c['expect_singular'] = 1
        c['watch'] = 1
        items.append(({'variant': 'plain', 'prec': pv[i]}, c))
    # many sibling panels that finish at the same moment under one parent, queue empty: lost wake-ups show here
    NS = 1200 if ctx.quick else 20000
    pv = spread(rng, NS)
    for i in range(NS):
        c = {'cmd': 'gstrf', 'fam': 'tree', 'shape': rng.choice([0, 1, 1, 2, 3, 4]), 'kary': rng.choice([2, 3, 5, 8]), 'n': rng.choice([16, 32, 64, 100]), 'seed': rng.randrange(1, 1 << 30), 'vals': 'generic',
             'np': rng.choice([2, 4, 8, 8, 16]), 'ord': 0, 'w': rng.choice([1, 1, 2]), 'relax': 1, 'maxsup': 8, 'rowblk': 200, 'colblk': 100, 'oracle': 0, 'watch': 1,
             'pmode': rng.choice([0, 0, 0, 1]), 'pert': rng.randrange(1, 1 << 30), 'reps': 40 if ctx.quick else 100}
        items.append(({'variant': 'plain', 'prec': pv[i]}, c))
    # thread counts far above cores and columns (each worker only ever polls): start-up / shut-down bookkeeping per thread
    for k, np_ in enumerate([65, 66, 96, 127, 128, 129, 200, 256, 257, 300] if ctx.quick else [65, 66, 80, 96, 100, 127, 128, 129, 160, 200, 255, 256, 257, 300, 400, 512, 513, 600]):
        for fam in ('band', 'tree'):
            c = {'cmd': 'gssv' if k % 2 else 'gstrf', 'fam': fam, 'n': 12 if fam == 'band' else 40, 'bl': 1, 'bu': 1, 'shape': 2, 'kary': 3, 'seed': 5 + k, 'vals': 'generic', 'dom': 'row',
                 'np': np_, 'ord': 0, 'w': 2, 'relax': 2, 'maxsup': 8, 'rowblk': 200, 'colblk': 100, 'nrhs': 1, 'stype': 'nc'}
            items.append(({'variant': 'asan' if fam == 'tree' else 'plain', 'prec': 'd', 'per_process': True, 'timeout_scale': 3.0}, c))
    # caller-supplied workspace that holds L and U but not every worker's work arrays (sized by the one-thread query, swept
    # downwards): some workers give up at start-up while others carry on; the call has to return all the same (info > n or
    # success), every thread gone
    NW = 240 if ctx.quick else 3000
    for i in range(NW):
        c = hist_base(rng, ctx.quick, nmax=44)
        c['n'] = max(c['n'], 12); c['mem'] = 1; c['lwfrac'] = rng.choice([1.0, 1.0, 0.97, 0.93, 0.9, 0.85, 0.8, 0.7, 0.6]); c['oomok'] = 1
        c['fill7frac'] = rng.choice([2.0, 3.0, 6.0]); c['fill8frac'] = rng.choice([2.0, 3.0, 6.0])
        c['ops'] = rng.choice(['F', 'F,S0', 'F,R0', 'F,D,F']); c['nps'] = rng.choice(['4', '8', '3', '16', '2,8'])
        c['qnp'] = 1      # the buffer is sized by a query for ONE thread
        if rng.random() < 0.5: c['pmode'] = rng.choice([1, 2]); c['pert'] = rng.randrange(1, 1 << 30)
        items.append(({'variant': 'plain', 'prec': rng.choice(PRECS), 'per_process': True, 'timeout_scale': 0.5}, c))
    items += sched_items(ctx)
    return items

PROPS['C04'] = dict(gen=gen_c04, relevant=('C04|', 'C03|taken-before-children-done', 'C03|chain-not-busy'), counters=EV_COUNTERS + MODEL_COUNTERS, nontrivial=nontrivial_factor, batch=25,
                    rule=RULE_FACTOR + '; oracle: wall-clock watchdog (two time-outs = hang), exactly-once counters per column and per panel from the event log, '
                    'tasks_remain snapshots taken under the scheduler lock, queue indices, /proc/self/task before and after; in-process watch thread: all nprocs workers '
                    'polling an empty scheduler with none holding a panel = lost wake-up (logical condition, no deadline)' + RULE_SCHED,
                    floors={'pipe_takes': 1000, 'sched_none': 100, 'model_states': 1000000},
                    assumptions=['"eventually returns" is decided as "returned within a 60 s watchdog on every executed schedule"'])

# ---- C05 ----
def gen_c05(ctx):
    rng = ctx.rng
    items = []
    N = 700 if ctx.quick else 12000
    pv = spread(rng, N)
    for i in range(N):
        cmd = rng.choice(['gstrf', 'gssv'])
        c = factor_case(rng, True if ctx.quick else rng.random() < 0.7, cmd, pmodes=(0, 1, 2), nps=[1, 2, 4, 8])
        if cmd == 'gssv':
            drv_extras(rng, c)
        else:
            c['u'] = rng.choice([1.0, 0.1, 0.0])
        env = {}
        if rng.random() < 0.4:
            env = {'SuperLU_DYNAMIC_SNODE_STORE': '1'}; c['dyn'] = 1
        if rng.random() < 0.1:
            c['n'] = rng.choice([400, 600]); c['oracle'] = 0; c['dens'] = round(3.0 / c['n'], 5)
        items.append(({'variant': 'asan', 'prec': pv[i], 'per_process': False, 'env': env}, c))
    # symmetric mode reserves L from the Cholesky bound of A+A': structurally unsymmetric, diagonally dominant inputs,
    # small relaxation parameters (relaxed supernodes that end inside a bound supernode), static and dynamic storage
    NSY = 900 if ctx.quick else 12000
    pv = spread(rng, NSY)
    for i in range(NSY):
        c = factor_case(rng, True, 'gstrf', fams=['rand', 'band', 'grid', 'forest', 'chain', 'tree', 'star'], pmodes=(0, 1), nps=[1, 2, 4])
        c['symm'] = 1; c['ord'] = rng.choice([2, 2, 0]); c['u'] = 0.0; c['vals'] = 'generic'; c['dom'] = rng.choice(['row', 'col'])
        c.pop('rscale', None); c.pop('cscale', None); c.pop('shufrows', None)
        c['relax'] = rng.choice([1, 1, 2, 3, 4, 6]); c['maxsup'] = max(c['relax'], rng.choice([4, 8, 24])); c['w'] = rng.choice([1, 2, 3, 4])
        if c['fam'] == 'band': c['bl'] = rng.choice([1, 2, 3, 6]); c['bu'] = rng.choice([0, 0, 1, 3])
        if c['fam'] == 'chain': c['lower'] = 1
        env = {'SuperLU_DYNAMIC_SNODE_STORE': '1'} if (rng.random() < 0.25 and c['np'] == 1) else {}
        if env: c['dyn'] = 1
        items.append(({'variant': 'asan' if i % 2 else 'plain', 'prec': pv[i], 'env': env}, c))
    # the caller's panel_size / relax options need not be what sp_ienv(1)/(2) answer (EXAMPLE/p?linsolx -w, -x): every array that
    # is sized from one of them must hold what the other one produces; chains long enough for full-width panels
    NO = 400 if ctx.quick else 6000
    pv = spread(rng, NO)
    for i in range(NO):
        w = rng.choice([1, 2, 4, 8]); wopt = rng.choice([w + 1, 2 * w, 3 * w, 3 * w + 1, max(1, w // 2)])
        rl = rng.choice([1, 2, 4]); rlopt = rng.choice([rl, rl, rl + 1, 2 * rl, max(1, rl // 2)])
        c = {'cmd': 'gstrf', 'fam': rng.choice(['band', 'band', 'dense', 'chain', 'skyline', 'grid']), 'n': rng.choice([30, 60, 100, 160]), 'seed': rng.randrange(1, 1 << 30), 'vals': 'generic', 'dom': 'row',
             'bl': rng.choice([1, 3, 8]), 'bu': rng.choice([1, 3]), 'lower': 1, 'ldens': 0.5, 'maxlen': 6,
             'np': rng.choice([1, 2, 4]), 'ord': rng.choice([0, 0, 1]), 'w': w, 'wopt': wopt, 'relax': rl, 'relaxopt': rlopt, 'maxsup': rng.choice([8, 24]), 'rowblk': rng.choice([2, 200]), 'colblk': rng.choice([2, 100]),
             'u': 1.0, 'oracle': rng.choice([0, 1])}
        if c['fam'] == 'dense': c['n'] = min(c['n'], 60)
        c['maxsup'] = max(c['maxsup'], rl, rlopt)
        items.append(({'variant': 'asan', 'prec': pv[i]}, c))
    # exhaustive forced pivot orders on small patterns under ASan (all pivot sequences)
    k = 0
    nmax = 3 if ctx.quick else 4
    for n in range(2, nmax + 1):
        for bits in range(1 << (n * n)):
            if not matchable(bits, n):
                continue
            k += 1
            if n == 3 and ctx.quick and k % 4:
                continue
            if n == 4 and k % 7:
                continue
            for perm in itertools.permutations(range(n)):
                c = {'cmd': 'gstrf', 'fam': 'bits', 'n': n, 'bits': bits, 'seed': 3 + k % 31, 'np': 1 + k % 2, 'ord': 0, 'usepr': 1, 'u': 0.0,
                     'fperm': ','.join(map(str, perm)), 'w': 1 + k % 2, 'relax': 1 + k % 3, 'maxsup': max(1 + k % 3, 2 + k % 2), 'rowblk': 1, 'colblk': 1, 'exh': 1}
                env = {'SuperLU_DYNAMIC_SNODE_STORE': '1'} if k % 2 else {}
                items.append(({'variant': 'asan', 'prec': PRECS[k % 4], 'env': env}, c))
    # too-small estimates for U and for L subscripts: the run must stop through the library's diagnostic
    NS = 60 if ctx.quick else 600
    for i in range(NS):
        c = factor_case(rng, True, 'gstrf', fams=['rand', 'grid', 'band'], pmodes=(0,), nps=[1, 2, 4])
        c['n'] = rng.choice([30, 44, 60]); c['dens'] = round(4.0 / c['n'], 4)
        which = rng.choice([7, 8])
        c['fill%d' % which] = rng.choice([5, 10, 20, 40])
        c['oracle'] = 0
        items.append(({'variant': 'asan', 'prec': rng.choice(PRECS), 'per_process': True, 'expect': 'abort-diagnostic', 'dump': False}, c))
    return items

def judge_c05(ctx, r, out):
    m = r['meta']
    if m.get('expect') != 'abort-diagnostic':
        return False
    err = r.get('stderr') or ''
    res = r.get('result')
    if r.get('timeout'):
        return False
    san = r.get('san')
    if san:
        out.append(('C05|too-small-estimate|%s:%s|%s' % (san['tool'], san['kind'], san['top']), 'sanitizer report with a too-small size estimate: %s' % san))
        return True
    if res is not None and r.get('rc') == 0:
        # the estimate happened to suffice: judged like a normal case
        return False
    if 'Storage for' in err and 'Memory allocation failed' in err:
        r['aborted_with_diagnostic'] = True
        r['aborted_small_estimate'] = True
        return True
    out.append(('C05|too-small-estimate|no-diagnostic', 'run ended (rc=%s, %s) without the library diagnostic; stderr: %s' % (r.get('rc'), r.get('signal'), err[-400:])))
    return True

def cov_c05(ctx, recs):
    return {'aborted_with_diagnostic': sum(1 for r in recs.values() if r.get('aborted_small_estimate')),
            'dynamic_storage_cases': sum(1 for r in recs.values() if r['meta'].get('env')),
            'exhaustive_forced_order_cases': sum(1 for r in recs.values() if r['case'].get('exh'))}

PROPS['C05'] = dict(gen=gen_c05, relevant=('C05|', 'C14|unexpected-info'), counters=EV_COUNTERS + ('dynsetmaps',), nontrivial=lambda r: (r.get('result') or {}).get('n', 0) >= 3 or bool(r.get('aborted_with_diagnostic')),
                    batch=12, judge=judge_c05, coverage_extra=cov_c05, timeout_case=120.0,
                    rule='ASan+UBSan build of the whole library under both drivers/direct factorization, static and dynamic L-supernode storage, all small-pattern forced pivot '
                    'orders, too-small U / L-subscript estimates; plus the slot-bound shadow monitor at every L-supernode allocation; distinct = sha1(case); non-trivial = n>=3 or aborted through the diagnostic',
                    floors={'aborted_with_diagnostic': 5, 'dynsetmaps': 100},
                    assumptions=['ASan red zones guard heap block ends only: overruns between sub-arrays of one work block are invisible (DESIGN 9)'])

# ---- C09 ----
def gen_c09(ctx):
    rng = ctx.rng
    items = []
    N = 2500 if ctx.quick else 40000
    pv = spread(rng, N)
    for i in range(N):
        cmd = rng.choice(['gstrf', 'gssv'])
        c = factor_case(rng, ctx.quick, cmd, pmodes=(4, 4, 1, 0), nps=[1, 2, 3, 4, 8, 16])
        if i % 3 == 0:
            # a forest of a few independent blocks: few supernodes, numbered by whichever thread comes first
            c['fam'] = 'blockdiag'; c['n'] = rng.choice([6, 9, 12, 15, 20, 30]); c['bs'] = rng.choice([2, 3, 6]); c['np'] = rng.choice([2, 3, 4]); c['pmode'] = 4
            c['pert'] = rng.randrange(1, 1 << 30); c['relax'] = rng.choice([1, 2, 8]); c['maxsup'] = max(c['relax'], c.get('maxsup', 8)); c['plevel'] = rng.choice([1, 2, 3])
            for k2 in ('dens', 'bl', 'bu', 'orient', 'lower', 'extra', 'ncpl'): c.pop(k2, None)
        if cmd == 'gssv':
            drv_extras(rng, c)
        c['oracle'] = 0 if rng.random() < 0.5 else 1
        items.append(({'variant': 'plain', 'prec': pv[i]}, c))
    # returned structures after REfactorizations (L/U objects rebound in place; the supernode partition may differ from the
    # previous call's): first factorization, then refactorizations with new values / other thread counts, validator after each
    NR = 600 if ctx.quick else 8000
    for i in range(NR):
        c = hist_base(rng, ctx.quick)
        if i % 3 == 0: c['fam'] = 'blockdiag'; c['bs'] = rng.choice([2, 3, 6])
        c['ops'] = rng.choice(['F,R0,R1', 'F,R0,S0,R0,S1', 'F,R1,R0,R1', 'F,R0,D,F,R0'])
        c['nps'] = ','.join(str(rng.choice([1, 2, 4, 8])) for _ in range(4))
        c['u'] = rng.choice([1.0, 0.5, 0.0]); c['mem'] = rng.choice([0, 0, 1])
        if c['mem']: c['lwfrac'] = 1.6
        c['pmode'] = rng.choice([0, 1, 4]); c['pert'] = rng.randrange(1, 1 << 30)
        items.append(({'variant': 'plain', 'prec': rng.choice(PRECS)}, c))
    # large forests: a few long chains (workers requesting U storage at a high rate) next to thousands of singleton supernodes that
    # only note where U currently ends; many threads, the same factorization repeated and validated each time.  Windows of a few
    # instructions between two reads of shared allocation state are only hit at this event rate.
    NB = 48 if ctx.quick else 600
    for i in range(NB):
        k = rng.choice([2, 4, 6]); L = rng.choice([200, 400, 800]); nd = rng.choice([1500, 3000])
        c = {'cmd': 'gstrf', 'fam': 'chainsdiag', 'nchains': k, 'chainlen': L, 'n': k * L + nd, 'seed': rng.randrange(1, 1 << 30), 'vals': 'generic', 'dom': 'row',
             'np': rng.choice([4, 8, 8, 16]), 'ord': 0, 'w': rng.choice([1, 2, 8]), 'relax': rng.choice([1, 2, 4]), 'maxsup': 8, 'rowblk': 200, 'colblk': 100,
             'oracle': 0, 'pmode': 0, 'reps': 12 if ctx.quick else 30, 'repvalidate': 1}
        items.append(({'variant': 'plain', 'prec': rng.choice(PRECS), 'per_process': True, 'timeout_scale': 4.0, 'dump': False}, c))
    return items

PROPS['C09'] = dict(gen=gen_c09, relevant=('C09|', 'C08|factors-malformed'), counters=EV_COUNTERS + ('nrefact',), nontrivial=lambda r: nontrivial_factor(r) or (r.get('result') or {}).get('nrefact', 0) >= 1, batch=30,
                    rule=RULE_FACTOR + '; oracle: structural validator over L (SCP), U (NCP), perm_r, perm_c: bijections, contiguous supernode tiling, row-list heads/ranges/duplicates, '
                    'value extents (length, stride, disjointness), U rows above the supernode, nnz fields, index order = dependency order; the event log counts how often '
                    'supernode numbers and subscript storage were handed out in different orders',
                    floors={'ns_mismatch': 1, 'pipe_takes': 50, 'nrefact': 300})

# ----------------------------------------------------------------------------
# expert driver workloads (C06 C07 C11 C12 C13)
# ----------------------------------------------------------------------------
def cond_cap(prec, frac=1.0):
    # largest condition number (as a power of ten) for which the statement's premises hold
    return {'d': 12, 'z': 12, 's': 3.5, 'c': 3.5}[prec] * frac

def gssvx_case(rng, prec, quick, kind='mixed', nmax=None):
    n = rng.choice([1, 2, 3, 5, 8, 12, 16, 24, 32, 44, 60] if quick else [1, 2, 3, 5, 8, 12, 16, 24, 32, 44, 60, 80, 100])
    if nmax: n = min(n, nmax)
    c = {'cmd': 'gssvx', 'seed': rng.randrange(1, 1 << 30)}
    if kind == 'svd' or (kind == 'mixed' and rng.random() < 0.45):
        c['fam'] = 'svd'; c['n'] = min(n, 60)
        c['cond'] = '%.3g' % (10 ** (rng.random() * cond_cap(prec)))
        c['svmode'] = rng.choice([0, 0, 1, 2])
    else:
        c['fam'] = rng.choice(['rand', 'band', 'grid', 'arrow', 'star', 'forest', 'chain'])
        c['n'] = n
        if c['fam'] == 'rand': c['dens'] = round(min(1.0, rng.choice([2.5, 4, 6]) / max(n, 1)), 4)
        if c['fam'] in ('star', 'forest'): c['bs'] = rng.choice([2, 3, 5]); c['ncpl'] = rng.choice([1, 2])
        if c['fam'] == 'band': c['bl'] = rng.choice([1, 2, 3]); c['bu'] = rng.choice([0, 1, 2])
    c['vals'] = 'generic'
    sc = rng.random()
    if sc < 0.25: c['rscale'] = rng.choice([8, 20, 30])
    elif sc < 0.5: c['cscale'] = rng.choice([8, 20, 30])
    elif sc < 0.7: c['rscale'] = rng.choice([8, 20]); c['cscale'] = rng.choice([8, 20])
    c['trans'] = rng.choice([0, 1, 2]); c['stype'] = rng.choice(['nc', 'nr'])
    c['equil'] = rng.choice([1, 1, 0])
    c['nrhs'] = rng.choice([0, 1, 1, 3])
    if kind != 'svd' and rng.random() < 0.15:
        # exact integer systems (unit triangular, entries +-1) whose solutions have exactly zero components
        c['fam'] = rng.choice(['band', 'band', 'forest', 'chain', 'tree']); c.pop('cond', None); c.pop('svmode', None)
        if c['fam'] == 'rand': c['dens'] = round(min(1.0, 4.0 / max(c['n'], 1)), 4)
        if c['fam'] == 'band': c['bl'] = 3; c['bu'] = 3
        if c['fam'] == 'forest': c['bs'] = 3; c['ncpl'] = 2
        if c['fam'] == 'tree': c['shape'] = rng.choice([0, 2, 3]); c['kary'] = 3; c['xanc'] = 0.3
        c['unitri'] = rng.choice([1, 2]); c['vals'] = 'int'; c['rhs'] = 'xsparse'; c['nrhs'] = rng.choice([1, 2, 3])
        for k2 in ('rscale', 'cscale', 'dom'): c.pop(k2, None)
        c['exact'] = 1
    if rng.random() < 0.5 and c['nrhs'] > 0:
        c['factored'] = 1; c['trans2'] = rng.choice([0, 1, 2])
    if rng.random() < 0.3: c['ldpad'] = 2; c['ldxpad'] = rng.choice([0, 3])
    c['np'] = rng.choice([1, 2, 4, 4])
    c['ord'] = rng.choice([0, 1, 2, 3])
    c['u'] = rng.choice([1.0, 1.0, 0.5, 0.1])
    c['w'] = rng.choice([1, 2, 4, 8]); c['relax'] = rng.choice([1, 2, 4, 6]); c['maxsup'] = max(c['relax'], rng.choice([4, 8, 24]))
    c['rowblk'] = rng.choice([2, 4, 200]); c['colblk'] = rng.choice([2, 4, 100])
    if c['np'] > 1 and rng.random() < 0.6:
        c['pmode'] = rng.choice([1, 2]); c['pert'] = rng.randrange(1, 1 << 30)
    if c.get('exact'):
        c['ord'] = 0; c['u'] = 1.0; c['n'] = max(c['n'], 5)
    elif kind != 'svd' and rng.random() < 0.12:
        # element growth: the unrefined solve is far from backward stable, refinement has to do the work; several right-hand
        # sides of very different size (zero / tiny columns next to ordinary ones)
        c['fam'] = 'wilk'; c['n'] = rng.choice([8, 12, 16, 20, 24, 32, 40] if prec in 'dz' else [6, 8, 10, 12, 16]); c['wtheta'] = rng.choice([1.0, 0.9, 0.7])
        for k2 in ('cond', 'svmode', 'dens', 'bs', 'ncpl', 'rscale', 'cscale', 'dom', 'unitri', 'rhs'): c.pop(k2, None)
        c['vals'] = 'generic'; c['ord'] = 0; c['u'] = rng.choice([1.0, 0.5, 0.1]); c['nrhs'] = rng.choice([2, 3, 4, 6, 8, 12])   # many columns: per-column state of the refinement loop (step budget, lstres) must restart
        c['colpat'] = rng.choice(['zg', 'gz', 'tg', 'gtg', 'zgzg', 'g', 'gg'])
    if rng.random() < 0.1 and c.get('nrhs', 0) >= 2 and 'colpat' not in c:
        c['colpat'] = rng.choice(['zg', 'gz', 'tg', 'gzg'])
    if kind != 'svd' and c['fam'] not in ('svd', 'wilk') and not c.get('exact') and not c.get('unitri') and rng.random() < 0.15:
        # threshold 0 with tiny diagonal entries: the diagonal is kept as pivot, the factorization is inaccurate by the growth 2^-e
        # although the matrix is well conditioned, and refinement needs several (up to all five) steps - its last step included
        c['u'] = 0.0; c['ord'] = 0; c['n'] = min(max(c['n'], 3), 16); c['fam'] = rng.choice(['dense', 'band', 'rand']); c['dens'] = 0.7; c['bl'] = 2; c['bu'] = 2
        for k2 in ('cond', 'svmode', 'bs', 'ncpl', 'rscale', 'cscale', 'dom', 'rhs'): c.pop(k2, None)
        c['vals'] = 'generic'; c['tinydiag'] = rng.choice([1, 1, 2]); c['tinyexp'] = -rng.choice(range(36, 53) if prec in 'dz' else range(14, 24))     # contraction 2^e*u between eps^(1/5) and 1/2: all five steps are productive
        c['nrhs'] = max(c.get('nrhs', 1), 1); c['equil'] = rng.choice([0, 0, 1])
    return c

X_COUNTERS = ('tight_judged', 'nrhs', 'premised', 'rcond_judged', 'pipe_takes', 'thr_panels')

def cov_equed(ctx, recs):
    eq = collections.Counter(); combos = set(); fact = 0; nonnat = 0
    for r in recs.values():
        res = r.get('result') or {}
        if 'equed' in res:
            eq[['none', 'row', 'col', 'both'][res['equed']] if 0 <= res['equed'] <= 3 else 'bad'] += 1
            combos.add((res.get('trans'), res.get('nr'), res.get('equed'), r['meta']['prec'], r['case'].get('equil')))
        if 'info2' in res: fact += 1
    return {'equed_outcomes': dict(eq), 'distinct_trans_storage_equed_prec_fact_combinations': len(combos), 'factored_reuse_calls': fact}

def nontrivial_x(r):
    res = r.get('result') or {}
    return res.get('n', 0) >= 3 and res.get('info') in (0, res.get('n', -5) + 1)

def gen_c07(ctx):
    rng = ctx.rng
    N = 6000 if ctx.quick else 60000
    pv = spread(rng, N, weights=(3, 2, 3, 2))
    return [({'variant': 'plain', 'prec': pv[i]}, gssvx_case(rng, pv[i], ctx.quick)) for i in range(N)]

PROPS['C07'] = dict(gen=gen_c07, relevant=('C07|', 'C11|B-', 'C11|A-', 'C11|equed', 'C02|reconstruction'), counters=X_COUNTERS, nontrivial=nontrivial_x, batch=25, coverage_extra=cov_equed,
                    rule='expert-driver calls over trans x storage x {DOFACT, EQUILIBRATE, then FACTORED with a new B and another trans} x badly scaled inputs (powers of two) '
                    'x 4 precisions x nrhs x nprocs; matrices: sparse families and dense matrices with prescribed singular values; distinct = sha1(case); non-trivial = n>=3 and a solution was returned; '
                    'oracle: extended-precision componentwise backward error of the returned X for the ORIGINAL system <= 4(n+1)u whenever kappa*growth*n*u <= 1e-3 (kappa from an explicit extended-precision inverse) '
                    'and Skeel\'s condition cond(A^-1)*sigma(A,x)*(n+1)*u <= 0.1 holds in the equilibrated system (refinement cannot reach componentwise u otherwise); in every case the unrefined bound '
                    '|b - op(A)x| <= 8*gamma(3n) |L||U||x| of C01, evaluated in the equilibrated system with the returned factors; A_out/B_out equal the inputs scaled by the reported R/C, X padding untouched',
                    floors={'premised': 500, 'factored_reuse_calls': 200, 'tight_judged': 500},
                    assumptions=['outside the premises only the unrefined LU bound, structure and NaN checks are applied to X'])

def gen_c12(ctx):
    rng = ctx.rng
    N = 5000 if ctx.quick else 50000
    pv = spread(rng, N, weights=(3, 2, 3, 2))
    out = []
    for i in range(N):
        c = gssvx_case(rng, pv[i], ctx.quick, kind='svd' if rng.random() < 0.75 else 'mixed')
        c['u'] = rng.choice([1.0, 0.5, 0.1]); c['nrhs'] = rng.choice([0, 1, 1])
        if c['fam'] == 'svd' and rng.random() < 0.12:
            # singular to working precision (no exact zero pivot): the driver has to say info = n+1 - also without right-hand sides -
            # and still deliver X, ferr, berr; only the info/rcond relation and the premise-free checks apply
            c['cond'] = '%.3g' % (10 ** ({'d': 16.5, 'z': 16.5, 's': 8.0, 'c': 8.0}[pv[i]] + 5 * rng.random())); c['n'] = max(c['n'], 3)
        if c['nrhs'] == 0: c.pop('factored', None)
        elif rng.random() < 0.5: c['factored'] = 1; c.setdefault('trans2', rng.choice([0, 1, 2]))      # rcond and pivot growth are outputs of a FACTORED call too
        out.append(({'variant': 'plain', 'prec': pv[i]}, c))
    # ?gscon and ?langs called directly with every documented spelling of the norm letter (1, O, o, I, i) on unsymmetric matrices
    NG = 800 if ctx.quick else 10000
    for i in range(NG):
        n = rng.choice([3, 5, 8, 12, 20])
        c = {'cmd': 'kern', 'sub': 'gscon', 'fam': rng.choice(['arrow', 'rand', 'band', 'skyline', 'grid']), 'n': n, 'dens': round(min(1.0, 3.0 / n), 3), 'orient': rng.choice([0, 1]), 'seed': rng.randrange(1, 1 << 30),
             'vals': 'generic', 'dom': rng.choice(['row', 'col']), 'rscale': rng.choice([0, 0, 6]), 'bl': 2, 'bu': 1, 'ldens': 0.4, 'maxlen': 3,
             'np': rng.choice([1, 2, 4]), 'ord': rng.choice([0, 1, 2, 3]), 'w': 2, 'relax': 2, 'maxsup': 8, 'rowblk': 200, 'colblk': 100}
        out.append(({'variant': 'plain', 'prec': rng.choice(PRECS)}, c))
    return out

PROPS['C12'] = dict(gen=gen_c12, relevant=('C12|',), counters=X_COUNTERS + ('gscon_judged', 'info_np1', 'info_np1_nrhs0'), nontrivial=lambda r: bool((r.get('result') or {}).get('rcond_judged')) or bool((r.get('result') or {}).get('gscon_judged')), batch=25, coverage_extra=cov_equed,
                    rule='expert driver on matrices with prescribed condition number up to 1e-3/eps (geometric / one-small / one-large singular value profiles), a class with condition numbers of 1/eps .. 1e5/eps where info = n+1 has to come back (with and without right-hand sides; counters info_np1, info_np1_nrhs0), and sparse families, both norms (all trans x storage), '
                    'thresholds u in {1,0.5,0.1}, 4 precisions, 1..4 threads; distinct = sha1(case); non-trivial = the rcond bounds were actually judged (kappa*n*u <= 1e-3); '
                    'oracle: explicit extended-precision inverse; 1/kappa <= rcond <= 1/(||A||*||inv(A)e/n||) up to delta = min(0.5, 8 n u kappa growth); info = n+1 iff rcond < eps; '
                    'reciprocal pivot growth recomputed from the returned factors within 8 ulp; both also for calls that re-use the factors (fact = FACTORED, output scalars poisoned before the call)',
                    floors={'rcond_judged': 400, 'info_np1': 40, 'info_np1_nrhs0': 10})

def gen_c13(ctx):
    rng = ctx.rng
    N = 5000 if ctx.quick else 50000
    pv = spread(rng, N, weights=(3, 2, 3, 2))
    out = []
    # tiny systems (n = 2..4) with several right-hand sides and non-dyadic data: exact residuals next to inexact solutions
    NTY = 3000 if ctx.quick else 30000
    for i in range(NTY):
        prec = rng.choice(PRECS)
        c = {'cmd': 'gssvx', 'seed': rng.randrange(1, 1 << 30), 'fam': rng.choice(['dense', 'rand', 'band']), 'n': rng.choice([2, 2, 3, 4]), 'dens': 0.8, 'bl': 1, 'bu': 1, 'vals': 'generic', 'dom': rng.choice(['row', 'col', '']),
             'trans': rng.choice([0, 1, 2]), 'stype': rng.choice(['nc', 'nr']), 'equil': rng.choice([0, 1]), 'nrhs': rng.choice([2, 3, 4]), 'np': rng.choice([1, 2]), 'ord': rng.choice([0, 1, 2, 3]),
             'u': 1.0, 'w': 2, 'relax': 2, 'maxsup': 8, 'rowblk': 200, 'colblk': 100}
        if not c['dom']: c.pop('dom')
        out.append(({'variant': 'plain', 'prec': prec}, c))
    for i in range(N):
        c = gssvx_case(rng, pv[i], ctx.quick, kind='svd' if rng.random() < 0.6 else 'mixed')
        if c['fam'] == 'svd':
            # up to 0.1/eps for the forward-error claim
            c['cond'] = '%.3g' % (10 ** (rng.random() * {'d': 14.5, 'z': 14.5, 's': 5.5, 'c': 5.5}[pv[i]]))
        c['nrhs'] = rng.choice([1, 2, 3])
        out.append(({'variant': 'plain', 'prec': pv[i]}, c))
    return out

PROPS['C13'] = dict(gen=gen_c13, relevant=('C13|', 'C07|backward-error'), counters=X_COUNTERS, nontrivial=nontrivial_x, batch=25, coverage_extra=cov_equed,
                    rule='expert driver with nrhs>=1 on matrices with condition number up to 0.1/eps; distinct = sha1(case); non-trivial = n>=3 and a solution was returned; oracle: the reported berr equals the '
                    'extended-precision componentwise backward error of the returned X within 4(nz+6)u (+2%); berr <= 4(n+1)u under the premise; ||x - x_true||/||x|| <= 40*ferr with x_true from an '
                    'extended-precision solve with two refinement steps (its own accuracy kappa*4n*2^-64 is allowed for)',
                    floors={'nrhs': 1000})

# ---- C06 ----
def sing_case(rng, prec, quick, drv, kind=None):
    n = rng.choice([2, 3, 4, 6, 9, 12, 16, 24, 36, 50])
    c = {'cmd': drv, 'seed': rng.randrange(1, 1 << 30), 'n': n, 'vals': 'generic'}
    c['fam'] = rng.choice(['band', 'grid', 'arrow', 'star', 'forest', 'chain', 'rand'])
    if c['fam'] == 'rand': c['dens'] = round(min(1.0, rng.choice([2.5, 4]) / n), 4); c['fam'] = 'band' if n < 4 else 'rand'
    if c['fam'] in ('star', 'forest'): c['bs'] = rng.choice([2, 3]); c['ncpl'] = 1
    kind = kind or rng.choice(['zerocol', 'zerocol', 'zerocols', 'zerocols', 'zerocols', 'zerorow', 'zerorow', 'onesblock', 'onesblock', 'onesblock', 'emptycol', 'emptyrow', 'hallblock', 'hall'])
    if c['fam'] == 'rand' and kind in ('hallblock', 'onesblock'):
        c['fam'] = 'band'        # the rest of the matrix must keep a full diagonal
    c['kind'] = kind
    if kind == 'zerocols':
        c['zerocols'] = rng.choice([2, 3, 4, 6]); c['expect_singular'] = 1
        c['n'] = n = rng.choice([12, 24, 36, 50, 80, 120]); c['fam'] = rng.choice(['forest', 'star', 'blockdiag', 'grid', 'band'])
        if c['fam'] in ('star', 'forest', 'blockdiag'): c['bs'] = rng.choice([2, 3, 5]); c['ncpl'] = 1
        c.pop('dens', None)
    elif kind in ('zerocol', 'zerorow', 'emptycol', 'emptyrow'):
        c[kind] = rng.randrange(n); c['expect_singular'] = 1
    elif kind == 'hallblock':
        c['hallblock'] = rng.randrange(2, max(3, min(n, 6) + 1)) if n > 2 else 2; c['expect_singular'] = 1; c['generic_singular'] = 1
    elif kind == 'onesblock':
        c['onesblock'] = rng.randrange(2, max(3, min(n, 5) + 1)) if n > 2 else 2; c['expect_singular'] = 1
    else:
        c['hall'] = rng.randrange(2, max(3, min(n, 5) + 1)) if n > 2 else 2; c['expect_singular'] = 2
    if kind in ('zerocol', 'emptycol'):
        c['generic_singular'] = 1
    c['np'] = rng.choice([1, 2, 3, 4, 8]); c['ord'] = rng.choice([0, 1, 2, 3])
    c['w'] = rng.choice([1, 2, 3, 8]); c['relax'] = rng.choice([1, 2, 4, 8]); c['maxsup'] = max(c['relax'], rng.choice([4, 8, 24]))
    if kind == 'zerocols':
        c['np'] = rng.choice([2, 3, 4, 8]); c['relax'] = rng.choice([1, 1, 2]); c['w'] = rng.choice([1, 2, 3]); c['maxsup'] = max(c['relax'], 8)
    c['rowblk'] = rng.choice([2, 200]); c['colblk'] = rng.choice([2, 100])
    c['nrhs'] = rng.choice([1, 2]); c['stype'] = rng.choice(['nc', 'nr'])
    if drv == 'gssvx':
        c['trans'] = rng.choice([0, 1, 2]); c['equil'] = rng.choice([0, 1])
        if rng.random() < 0.3: c['rscale'] = 10
    if c['np'] > 1: c['pmode'] = rng.choice([0, 1, 2, 5]); c['pert'] = rng.randrange(1, 1 << 30)
    return c

def gen_c06(ctx):
    rng = ctx.rng
    N = 1600 if ctx.quick else 25000
    out = []
    # several exactly-zero columns in different branches of the elimination tree: the FIRST one must be reported
    # whichever thread meets which one first (needs many executions per precision: a thread has to run into a later
    # singular column before an earlier one)
    NZ = 1600 if ctx.quick else 20000
    for i in range(NZ):
        prec = PRECS[i % 4]
        c = sing_case(rng, prec, ctx.quick, rng.choice(['gssv', 'gssvx']), kind='zerocols')
        out.append(({'variant': 'plain', 'prec': prec}, c))
    # the converse: NONsingular matrices with a column whose every entry is tiny (subnormal, but with a finite reciprocal) must
    # not be reported singular: info > 0 is reserved for exactly zero pivots
    NT = 600 if ctx.quick else 8000
    for i in range(NT):
        prec = PRECS[i % 4]
        n = rng.choice([4, 6, 9, 14, 20])
        lo = -1074 if prec in 'dz' else -149; fmin = -1022 if prec in 'dz' else -126
        c = {'cmd': rng.choice(['gssv', 'gstrf']), 'fam': rng.choice(['band', 'grid', 'tree', 'rand']), 'n': n, 'dens': round(min(1.0, 3.0 / n), 3), 'seed': rng.randrange(1, 1 << 30),
             # integers 1..3 times 2^(emin-1): below the smallest normal number, reciprocal still finite
             'vals': rng.choice(['ones', 'int']), 'dom': 'col', 'tinycol': rng.randrange(n), 'tinyexp': fmin - 1,
             'np': rng.choice([1, 2, 4]), 'ord': rng.choice([0, 1, 2, 3]), 'w': rng.choice([1, 2, 4]), 'relax': rng.choice([1, 2, 4]), 'maxsup': 8, 'rowblk': 200, 'colblk': 100,
             'nrhs': 1, 'stype': 'nc', 'oracle': 0, 'kind': 'tiny-nonsingular', 'shape': 0, 'kary': 2, 'bl': 1, 'bu': 1}
        out.append(({'variant': 'plain', 'prec': prec}, c))
    for i in range(N):
        prec = rng.choice(PRECS)
        c = sing_case(rng, prec, ctx.quick, rng.choice(['gssv', 'gssvx']))
        # half under ASan (one case per process so that a crash is attributed), half plain in batches
        if i % 2 == 0:
            out.append(({'variant': 'asan', 'prec': prec, 'per_process': True}, c))
        else:
            out.append(({'variant': 'plain', 'prec': prec, 'per_process': c['kind'] in ('emptycol', 'emptyrow', 'hall', 'hallblock')}, c))
    # the singular matrix arrives as a RE-factorization (same pattern, new values with one exactly zero column), with and without re-use
    # of the previous row pivots, after histories of ordinary calls: the zero-pivot test sits next to the pivot-reuse logic
    NH = 400 if ctx.quick else 5000
    for i in range(NH):
        prec = rng.choice(PRECS)
        c = hist_base(rng, ctx.quick, nmax=44)
        c['n'] = max(c['n'], 5); c['u'] = rng.choice([1.0, 1.0, 0.5]); c['kind'] = 'refact-zerocol'
        c['ops'] = rng.choice(['F,Y1', 'F,Y0', 'F,R1,Y1', 'F,S0,Y1,F,S0', 'F,Y1,F,R1,Y1', 'F,R0,Y0,F,Y1'])
        c['nps'] = ','.join(str(rng.choice([1, 2, 4, 8])) for _ in range(3))
        if rng.random() < 0.5: c['pmode'] = rng.choice([1, 2]); c['pert'] = rng.randrange(1, 1 << 30)
        out.append(({'variant': 'asan' if i % 3 == 0 else 'plain', 'prec': prec}, c))
    return out

def judge_kind(ctx, r, out):
    # make crash keys specific to the singular input class
    return False

def cov_c06(ctx, recs):
    k = collections.Counter(); rep = collections.Counter()
    for r in recs.values():
        k[r['case'].get('kind')] += 1
        res = r.get('result') or {}
        if 0 < res.get('info', 0) <= res.get('n', 0): rep[r['case'].get('kind')] += 1
    return {'singular_kinds': dict(k), 'reported_through_info': dict(rep)}

PROPS['C06'] = dict(gen=gen_c06, relevant=('C06|', 'C07|info-range', 'C01|info-range', 'C01|info-nonzero', 'C08|info-nonzero', 'C08|factors-malformed', 'C08|reconstruction'), counters=('nrhs', 'first_deficient', 'sing_refact'), batch=20, coverage_extra=cov_c06,
                    nontrivial=lambda r: 0 < (r.get('result') or {}).get('info', 0) <= (r.get('result') or {}).get('n', 0) or r['case'].get('kind') == 'tiny-nonsingular',
                    rule='both drivers (ASan build one case per process + plain build) on singular inputs: stored-zero column/row, structurally empty column/row, isolated Hall violators (h columns meeting only h-1 rows), '
                    'isolated rank-1 +-1 blocks (exact cancellation whatever the pivot order), non-isolated Hall violators (outcome free, only safety asserted); distinct = sha1(case); non-trivial = 0<info<=n returned; '
                    'oracle: returns normally, 0<info<=n, B unchanged (simple) / X sentinel intact and B scaled only as reported (expert), perm_c bijection, L/U walkable and destroyable, '
                    'info = first structurally deficient prefix of A*Pc (augmenting-path matching) for the families where exact zeros are guaranteed in floating point',
                    floors={'sing_refact': 100},
                    assumptions=['for structurally rank-deficient patterns whose violator columns receive fill, floating-point elimination need not produce exact zeros: there only crash/corruption freedom is asserted'])

# ---- C11 (driver part; the computational routines are exercised by cmd=equil) ----

# ---- C19 ----
def gen_c19(ctx):
    rng = ctx.rng
    out = []
    N = 15000 if ctx.quick else 150000
    for i in range(N):
        prec = rng.choice(PRECS)
        sub = rng.choice(['gemv', 'gemv', 'gemv', 'gemm', 'trsv', 'langs', 'convert'])
        n = rng.choice([1, 2, 3, 5, 8, 13, 20, 33])
        c = {'cmd': 'kern', 'sub': sub, 'seed': rng.randrange(1, 1 << 30), 'n': n, 'vals': 'generic'}
        meta = {'variant': 'plain', 'prec': prec}
        if sub == 'trsv':
            c['fam'] = rng.choice(['rand', 'band', 'grid', 'arrow', 'forest'])
            c['n'] = max(n, 3)
            if c['fam'] == 'rand': c['dens'] = round(min(1.0, 4.0 / c['n']), 4)
            c['np'] = rng.choice([1, 2, 4]); c['ord'] = rng.choice([0, 1, 2, 3])
            if rng.random() < 0.5: c['xzero'] = rng.choice([1, 1, 2, 4, 5])
            c['w'] = rng.choice([1, 2, 4, 8]); c['relax'] = rng.choice([1, 2, 4]); c['maxsup'] = max(c['relax'], rng.choice([4, 8, 24]))
            c['rowblk'] = rng.choice([2, 200]); c['colblk'] = rng.choice([2, 100])
            if c['np'] > 1: c['pmode'] = 1; c['pert'] = rng.randrange(1, 1 << 30)
        else:
            c['fam'] = 'rand'; c['m'] = rng.choice([1, 2, 4, 7, 13, 21]); c['dens'] = rng.choice([0.1, 0.3, 0.7]); c['transversal'] = 0
            if rng.random() < 0.2: c['emptycol'] = rng.randrange(n)
            if sub in ('gemv', 'gemm'):
                c['trans'] = rng.choice(['N', 'T', 'C']); c['alpha'] = rng.randrange(7); c['beta'] = rng.randrange(7)
                if rng.random() < 0.5: c['xzero'] = rng.choice([1, 1, 2, 2, 3, 4])
                if rng.random() < 0.2: c['yzero'] = 1
                if rng.random() < 0.15: c['beta'] = 0
                if c['beta'] == 0 and rng.random() < 0.7: c['yunset'] = rng.choice([1, 1, 2, 3, 4])   # beta = 0: y / C 'need not be set on input' (NaN, Inf, huge)
                if sub == 'gemv':
                    c['incx'] = rng.choice([1, 1, 1, 2, -1, -3]); c['incy'] = rng.choice([1, 1, 1, 2, -1, -3])
                else:
                    c['ncolb'] = rng.choice([1, 2, 3])
            if sub == 'convert' or sub == 'langs':
                if rng.random() < 0.3: c['shufrows'] = 1
        if rng.random() < 0.15 and sub != 'trsv':
            meta['variant'] = 'asan'
        out.append((meta, c))
    return out

def judge_c19(ctx, r, out):
    err = r.get('stderr') or ''
    c = r['case']
    if r.get('result') is None and 'Not implemented' in err:
        out.append(('C19|%s-not-implemented|%s' % (c.get('sub'), 'stride' if c.get('sub') == 'gemv' else 'other'),
                    'aborted with "Not implemented": sub=%s trans=%s incx=%s incy=%s' % (c.get('sub'), c.get('trans'), c.get('incx'), c.get('incy'))))
        return True
    return False

def cov_c19(ctx, recs):
    k = collections.Counter()
    for r in recs.values():
        c = r['case']; k['%s/%s' % (c.get('sub'), c.get('trans', '-'))] += 1
    return {'calls_by_kernel_and_op': dict(k)}

PROPS['C19'] = dict(timeout_case=20.0, gen=gen_c19, relevant=('C19|', 'C09|'), counters=('nnz',), batch=40, judge=judge_c19, coverage_extra=cov_c19,
                    nontrivial=lambda r: (r.get('result') or {}).get('nnz', 0) >= 2 and not (r.get('result') or {}).get('nfail'),
                    rule='direct calls of sp_?gemv (N/T/C, alpha,beta in {0,1,-1,generic,imaginary}, strides 1,2,-1,-3; with beta = 0 also on a y / C buffer that was never set: NaN, Inf, huge), sp_?gemm, sp_?trsv for every (uplo,trans) on L/U from real factorizations '
                    '(1..4 threads), ?langs (M,1,O,I,F,E), ?CompRow_to_CompCol, ?Copy_CompCol_Matrix, ?Create_CompCol_Permuted on random m x n matrices incl. empty columns; 4 precisions; '
                    'distinct = sha1(case); non-trivial = nnz>=2 and judged; oracle: dense extended-precision definition with the standard bound gamma(k+3)(|alpha||A||x|+|beta||y|), '
                    'residual bound gamma(n+2)|T||x| for the solves, (k+4)u for norms (max-norm of a real matrix exact), bitwise multiset equality for conversions, inputs unchanged')

# ---- C10 ----
def gen_c10(ctx):
    rng = ctx.rng
    out = []
    # exhaustive: every 0/1 pattern with n<=3 (quick) / n<=4 (thorough), each ordering, both modes
    nmax = 3 if ctx.quick else 4
    k = 0
    for n in range(1, nmax + 1):
        step = 1 if n <= 3 else 5
        for bits in range(0, 1 << (n * n), step):
            for ord_ in (0, 1, 2, 3):
                k += 1
                if n == 3 and ctx.quick and (k % 2): continue
                c = {'cmd': 'order', 'sub': 'colorder', 'fam': 'bits', 'n': n, 'bits': bits, 'ord': ord_, 'symm': k % 2, 'seed': 1 + k % 13, 'exh': 1}
                if k % 5 == 0: c['randperm'] = 1
                out.append(({'variant': 'plain' if k % 4 else 'asan', 'prec': 'd'}, c))
    N = 12000 if ctx.quick else 120000
    for i in range(N):
        n = rng.choice([2, 3, 5, 8, 12, 20, 30, 50, 80, 120] if ctx.quick else [2, 3, 5, 8, 12, 20, 30, 50, 80, 120, 200, 300])
        fam = rng.choice(['rand', 'rand', 'randnd', 'band', 'grid', 'arrow', 'star', 'forest', 'chain', 'dense', 'blockdiag', 'tree'])
        if fam == 'dense': n = min(n, 20)
        c = {'cmd': 'order', 'sub': 'colorder', 'fam': fam, 'n': n, 'seed': rng.randrange(1, 1 << 30), 'ord': rng.choice([0, 1, 2, 3]), 'symm': rng.choice([0, 0, 1])}
        if fam in ('rand', 'randnd'):
            c['dens'] = round(min(1.0, rng.choice([1.0, 2.5, 5]) / n), 4); c['transversal'] = rng.choice([0, 1])
        if fam in ('star', 'forest'): c['bs'] = rng.choice([1, 2, 3, 5]); c['ncpl'] = rng.choice([1, 2])
        if fam == 'blockdiag': c['bs'] = rng.choice([1, 2, 3]); c['bdens'] = rng.choice([0.3, 0.8, 1.0])
        if fam == 'tree': c['shape'] = rng.choice([0, 1, 2, 3, 4]); c['kary'] = rng.choice([2, 3, 5]); c['xanc'] = rng.choice([0, 0.3])
        r = rng.random()
        if r < 0.15: c['emptycol'] = rng.randrange(n)
        elif r < 0.3: c['emptyrow'] = rng.randrange(n)
        elif r < 0.4: c['denserow'] = rng.randrange(n)
        elif r < 0.5: c['densecol'] = rng.randrange(n)
        if rng.random() < 0.25: c['randperm'] = 1
        if rng.random() < 0.35: c['shufrows'] = 1      # row indices of a column in arbitrary order (legal for the format; COLAMD calls it jumbled)
        if rng.random() < 0.1:
            # rectangular: orderings only
            c['sub'] = 'permc'; c['m'] = max(1, n + rng.choice([-3, -1, 2, 7])); c['ord'] = rng.choice([0, 1, 3]); c['transversal'] = 0; c['fam'] = 'rand'; c['dens'] = 0.2
            for k2 in ('emptycol', 'emptyrow', 'denserow', 'densecol'): c.pop(k2, None)
        out.append(({'variant': 'asan' if i % 5 == 0 else 'plain', 'prec': rng.choice(['d', 's'])}, c))
    # deep elimination trees (chains of 10^5 .. 4*10^6 columns) under the default 8 MB stack: recursion depth, index width
    for n in ([100000, 1000000, 2000000, 4000000] if ctx.quick else [100000, 400000, 1000000, 1500000, 2000000, 3000000, 4000000, 6000000]):
        for chains in (1, 2, 3):
            for symm in (0, 1):
                out.append(({'variant': 'plain', 'prec': 'd', 'per_process': True, 'timeout_scale': 6.0, 'dump': False}, {'cmd': 'order', 'sub': 'deep', 'n': n, 'chains': chains, 'symm': symm, 'seed': 1}))
    return out

PROPS['C10'] = dict(timeout_case=20.0, gen=gen_c10, relevant=('C10|',), counters=('nnz', 'n'), batch=40,
                    nontrivial=lambda r: (r.get('result') or {}).get('n', 0) >= 3 and (r.get('result') or {}).get('nnz', 0) >= 2,
                    rule='get_perm_c(0..3) and sp_colorder (symmetric mode on/off, library or random caller ordering) on every 0/1 pattern with n<=3 (quick) / sampled n<=4 (thorough) and on random/structured patterns '
                    'up to n=120/300 with empty rows/columns, dense rows/columns, rectangular shapes (orderings only); plain + ASan builds; distinct = sha1(case); non-trivial = n>=3, nnz>=2; '
                    'oracle: bijections; A*Pc shares A`s arrays and column perm_c[j] is column j; reported etree = parent function of the Cholesky factor of the explicitly formed pattern of (A*Pc)^T(A*Pc) '
                    '(or Pc(A+A^T)Pc^T) by naive symbolic elimination; contiguous subtrees; perm_c_out o perm_c_in^-1 relabels the reference tree of A*Pc_in; part_super_h tiles 0..n-1; colcnt_h in range')

# ---- C11 ----
def gen_c11(ctx):
    rng = ctx.rng
    out = []
    N = 4000 if ctx.quick else 60000
    for i in range(N):
        prec = rng.choice(PRECS)
        sub = rng.choice(['gsequ', 'gsequ', 'laqgs'])
        n = rng.choice([1, 1, 2, 3, 5, 9, 17]); m = rng.choice([1, 2, 3, 5, 9, 17])
        c = {'cmd': 'equil', 'sub': sub, 'fam': 'rand', 'n': n, 'm': m, 'dens': rng.choice([0.2, 0.5, 1.0]), 'transversal': 0, 'seed': rng.randrange(1, 1 << 30), 'vals': 'generic'}
        span = {'d': 1000, 'z': 1000, 's': 120, 'c': 120}[prec]
        c['espan'] = rng.choice([0, 3, 30, span // 2, span])
        if sub == 'laqgs' and rng.random() < 0.5: c['rcfrom'] = 1; c['espan'] = rng.choice([span // 2, span, span]); c['dens'] = rng.choice([0.5, 1.0])
        r = rng.random()
        if r < 0.15: c['emptyrow'] = rng.randrange(m)
        elif r < 0.3: c['emptycol'] = rng.randrange(n)
        elif r < 0.4: c['zerocol'] = rng.randrange(n)
        elif r < 0.5: c['zerorow'] = rng.randrange(m)
        out.append(({'variant': 'asan' if i % 6 == 0 else 'plain', 'prec': prec}, c))
    # the driver part: equilibrating expert-driver calls (A_out/B_out/flag consistency)
    M = 1500 if ctx.quick else 20000
    for i in range(M):
        prec = rng.choice(PRECS)
        c = gssvx_case(rng, prec, ctx.quick)
        c['equil'] = 1
        c['rscale'] = rng.choice([0, 8, 20, 30]); c['cscale'] = rng.choice([0, 8, 20, 30])
        out.append(({'variant': 'plain', 'prec': prec}, c))
    # returns that do not reach the solve: exactly singular matrices without a zero row or column (isolated +-1 blocks, so the
    # equilibration is applied and stays exact under the power-of-two scaling) and workspace queries; A_out, B_out and the flag
    # have to agree all the same
    M2 = 600 if ctx.quick else 8000
    for i in range(M2):
        prec = rng.choice(PRECS)
        if i % 2 == 0:
            c = sing_case(rng, prec, ctx.quick, 'gssvx', kind='onesblock')
        else:
            c = gssvx_case(rng, prec, ctx.quick); c['lwq'] = 1; c.pop('factored', None)
        c['equil'] = 1; c['trans'] = rng.choice([0, 1, 2])
        c['rscale'] = rng.choice([0, 8, 20]); c['cscale'] = rng.choice([0, 8, 20])
        out.append(({'variant': 'plain', 'prec': prec}, c))
    return out

def cov_c11(ctx, recs):
    d = cov_equed(ctx, recs)
    k = collections.Counter()
    for r in recs.values():
        res = r.get('result') or {}
        if r['case']['cmd'] == 'equil':
            k['%s/info%s' % (r['case']['sub'], '0' if res.get('info', 0) == 0 else '>0')] += 1
    ns = collections.Counter()
    for r in recs.values():
        res = r.get('result') or {}
        if r['case']['cmd'] == 'gssvx' and res.get('equed', 0) in (1, 2, 3):
            if res.get('query'): ns['query_with_scaling_applied'] += 1
            elif 0 < res.get('info', 0) <= res.get('n', 0): ns['singular_with_scaling_applied'] += 1
    d['returns_without_solve'] = dict(ns)
    d['direct_calls'] = dict(k)
    return d

PROPS['C11'] = dict(timeout_case=20.0, gen=gen_c11, relevant=('C11|',), counters=('nnz',), batch=40, coverage_extra=cov_c11,
                    nontrivial=lambda r: (r.get('result') or {}).get('nnz', 0) >= 2,
                    rule='?gsequ and ?laqgs called directly on m x n matrices whose entries are +-2^e with e spread over the whole exponent range of the precision, with zero/empty rows and columns, 1x1; '
                    'plus equilibrating expert-driver calls on badly scaled systems; 4 precisions; distinct = sha1(case); non-trivial = nnz>=2; oracle: R, C finite >0 and equal to 1/clip(max) within 1.5/4 ulp '
                    '(|re|+|im| magnitude for c/z), row/column maxima of the scaled matrix equal 1 within a few ulp unless clipped, rowcnd/colcnd/amax recomputed, zero row/column reported by index, '
                    '?laqgs follows the documented thresholds and scales exactly as its flag says, driver: A_out = R^a A C^b within 3 ulp, B_out exactly the scaled input, flag none => A, B bit-identical',
                    assumptions=['at the thresholds themselves (0.1 is not representable) either decision of ?laqgs is accepted'])

# ---- C15 ----
EQV = (11, 12, 13, 24, 25, 26)     # violations that set fact/equed themselves: not combined with each other or with an illegal fact
ARG_TABLE = {'gssv': 11, 'gssvx': 29, 'gstrs': 7, 'gsrfs': 14, 'gscon': 5, 'gsequ': 4, 'trsv': 6, 'gemv': 4}

def gen_c15(ctx):
    rng = ctx.rng
    out = []
    for prec in PRECS:
        for rt, nv in ARG_TABLE.items():
            for v in range(nv):
                out.append(({'variant': 'asan' if (v % 2 == 0) else 'plain', 'prec': prec}, {'cmd': 'args', 'rt': rt, 'v1': v, 'n': 4 + v % 3, 'seed': 7 + v}))
            if rt in ('gssv', 'gssvx'):
                # every single violation once more with A handed over row-wise (SLU_NR)
                for v in range(nv):
                    out.append(({'variant': 'asan' if v % 2 else 'plain', 'prec': prec}, {'cmd': 'args', 'rt': rt, 'v1': v, 'n': 4 + v % 3, 'seed': 13 + v, 'anr': 1}))
            if rt in ('gssv', 'gssvx', 'gstrs', 'gsrfs'):
                # every single violation once more on a call without right-hand sides (legal by itself)
                for v in range(nv):
                    out.append(({'variant': 'plain', 'prec': prec}, {'cmd': 'args', 'rt': rt, 'v1': v, 'n': 4 + v % 3, 'seed': 9 + v, 'nrhs0': 1}))
            if rt == 'gssvx':
                # every single violation once more on a call that also carries legal-but-unusual options (workspace query, transposed solve
                # with 3 threads, caller-supplied workspace), column- and row-wise, with and without right-hand sides
                for v in range(nv):
                    for lg in (1, 2, 3):
                        cc = {'cmd': 'args', 'rt': rt, 'v1': v, 'n': 4 + v % 3, 'seed': 17 + v + 100 * lg, 'legal': lg}
                        if (v + lg) % 3 == 0: cc['anr'] = 1
                        if (v + lg) % 4 == 1: cc['nrhs0'] = 1
                        out.append(({'variant': 'asan' if (v + lg) % 2 else 'plain', 'prec': prec}, cc))
            pairs = [(a, b) for a in range(nv) for b in range(a + 1, nv) if not (rt == 'gssvx' and ((a == 1 and b in EQV) or (a in EQV and b in EQV)))]
            for a, b in pairs:
                out.append(({'variant': 'plain' if (a + b) % 3 else 'asan', 'prec': prec}, {'cmd': 'args', 'rt': rt, 'v1': a, 'v2': b, 'n': 5, 'seed': 11 + a * 31 + b}))
    return out

def cov_c15(ctx, recs):
    k = collections.Counter()
    for r in recs.values():
        res = r.get('result') or {}
        k[res.get('rt', '?')] += 1
    return {'calls_by_routine': dict(k), 'violations_in_table': dict(ARG_TABLE)}

PROPS['C15'] = dict(timeout_case=20.0, gen=gen_c15, relevant=('C15|',), counters=('xerbla_calls',), batch=30, coverage_extra=cov_c15,
                    nontrivial=lambda r: 'want' in (r.get('result') or {}),
                    rule='table-driven: every single documented-precondition violation and all pairs of violations for p?gssv, p?gssvx, ?gstrs, ?gsrfs, ?gscon, ?gsequ, sp_?trsv, sp_?gemv, '
                    '4 precisions, plain and ASan builds; distinct = sha1(case); oracle: info = -(lowest documented position), the error handler is called exactly once with that position, '
                    'FNV checksums over every argument-reachable byte unchanged, live heap bytes unchanged, no thread created')

# ----------------------------------------------------------------------------
# call histories (C08 C14 C17 C18)
# ----------------------------------------------------------------------------
def hist_base(rng, quick, nmax=60):
    n = rng.choice([3, 5, 8, 12, 20, 30, 44, 60])
    n = min(n, nmax)
    c = {'cmd': 'hist', 'seed': rng.randrange(1, 1 << 30), 'n': n, 'vals': 'generic'}
    c['fam'] = rng.choice(['rand', 'band', 'grid', 'arrow', 'star', 'forest', 'chain'])
    if c['fam'] == 'rand': c['dens'] = round(min(1.0, rng.choice([2.5, 4, 6]) / n), 4)
    if c['fam'] in ('star', 'forest'): c['bs'] = rng.choice([2, 3, 5]); c['ncpl'] = rng.choice([1, 2])
    c['ord'] = rng.choice([0, 1, 2, 3])
    c['w'] = rng.choice([1, 2, 3, 8]); c['relax'] = rng.choice([1, 2, 4]); c['maxsup'] = max(c['relax'], rng.choice([4, 8, 24]))
    c['rowblk'] = rng.choice([2, 200]); c['colblk'] = rng.choice([2, 100])
    return c

def rand_ops(rng, length):
    ops = ['F']
    have = True
    for _ in range(length - 1):
        if have:
            o = rng.choice(['R0', 'R1', 'R1', 'S0', 'S1', 'S2', 'D', 'P0', 'P1'])      # P: first factorization (refact = NO) that asks for pivot re-use
        else:
            o = 'F'
        if o == 'D': have = False
        if o == 'F': have = True
        ops.append(o)
    return ','.join(ops)

def gen_c08(ctx):
    rng = ctx.rng
    out = []
    N = 2500 if ctx.quick else 30000
    for i in range(N):
        prec = rng.choice(PRECS)
        c = hist_base(rng, ctx.quick)
        c['ops'] = rand_ops(rng, rng.choice([2, 3, 4, 4]) if ctx.quick else rng.choice([3, 5, 8, 10]))
        c['nps'] = ','.join(str(rng.choice([1, 2, 4, 8])) for _ in range(4))
        c['u'] = rng.choice([1.0, 0.5, 0.1, 0.0])
        if rng.random() < 0.35: c['zeropiv'] = rng.choice([1, 2, 3])
        c['mem'] = rng.choice([0, 0, 1])
        if c['mem']: c['lwfrac'] = 1.6
        if rng.random() < 0.5: c['pmode'] = rng.choice([1, 2]); c['pert'] = rng.randrange(1, 1 << 30)
        if rng.random() < 0.5: c['pp'] = 1      # refactorizations receive perm_r / perm_c in other arrays than the call before (old ones poisoned)
        out.append(({'variant': 'asan' if i % 3 == 0 else 'plain', 'prec': prec}, c))
    return out

H_COUNTERS = ('pp_moves', 'work_allocs', 'nops', 'nfact', 'nrefact', 'nsolve', 'queries', 'usepr_kept', 'usepr_changed', 'usepr_undec', 'inbuf_checked', 'allocs')

PROPS['C08'] = dict(gen=gen_c08, relevant=('C08|', 'C09|refact', 'C09|first'), counters=H_COUNTERS, batch=15, timeout_case=90.0,
                    nontrivial=lambda r: (r.get('result') or {}).get('nrefact', 0) + (r.get('result') or {}).get('nsolve', 0) >= 1,
                    rule='random call sequences (length <=4 quick / <=10 thorough) over {first factor, refactor with/without row-pivot reuse and new values, solve with existing factors (N/T/C, new B), destroy + first factor again} '
                    'on one pattern, thread count varying between calls, internal and caller-supplied workspace, plain and ASan builds; new values either keep old pivots valid or re-rank column maxima by factors 1/64..128; '
                    'distinct = sha1(case); non-trivial = at least one refactorization or reuse-solve executed; oracle after every call: reconstruction against the values current at that call, residual bound, structural validator; '
                    'with pivot reuse an extended-precision replay of the old row order decides whether perm_r must be identical or must change; solves must leave A, L, U and both permutations bit-identical; in half of the cases every refactorization is handed the permutations in new arrays (same contents, the old arrays poisoned: pp_moves)',
                    floors={'nrefact': 300, 'nsolve': 300, 'usepr_kept': 20, 'usepr_changed': 20, 'pp_moves': 50})

# ---- C14 ----
def gen_c14(ctx):
    rng = ctx.rng
    out = []
    # (a)+(b): workspace query and user workspace of every size class, ASan, one case per process
    NS = 500 if ctx.quick else 8000
    for i in range(NS):
        prec = rng.choice(PRECS)
        c = hist_base(rng, ctx.quick, nmax=30)
        c['mem'] = 1
        c['lwfrac'] = rng.choice([0.0, 0.001, 0.01, 0.03, 0.05, 0.08, 0.1, 0.15, 0.2, 0.25, 0.3, 0.35, 0.4, 0.45, 0.5, 0.55, 0.6, 0.7, 0.8, 0.9, 1.0, 1.1, 1.25, 1.5, 2.0])
        if rng.random() < 0.3: c['lwfrac'] = round(rng.random() * 1.3, 4)
        c['ops'] = rng.choice(['F,S0', 'F,S0,R1,S1', 'Q,F,S0', 'F,R0,S0,D,F,S2'])
        c['nps'] = str(rng.choice([1, 2, 3, 4])); c['lwodd'] = rng.choice([0, 0, 4, 1, 3, 7])
        out.append(({'variant': 'asan', 'prec': prec, 'per_process': True, 'class': 'workspace'}, c))
    # results with a sufficient user workspace match the internally allocated run (1 thread: bitwise)
    NP = 120 if ctx.quick else 2000
    for i in range(NP):
        prec = rng.choice(PRECS)
        c = hist_base(rng, ctx.quick, nmax=44)
        c['ops'] = 'F,S0'; c['nps'] = '1'
        a = dict(c); a['mem'] = 0; a['pair'] = i
        b = dict(c); b['mem'] = 1; b['lwfrac'] = 1.8; b['pair'] = i
        out.append(({'variant': 'plain', 'prec': prec, 'class': 'pair'}, a))
        out.append(({'variant': 'plain', 'prec': prec, 'class': 'pair'}, b))
    # sufficient workspace of arbitrary (unaligned) size, several threads, stretched window between a thread carving its
    # work arrays from the tail and re-aligning them: the work-array monitor checks disjointness of all live arrays
    NW = 600 if ctx.quick else 10000
    for i in range(NW):
        prec = rng.choice(PRECS)
        c = hist_base(rng, ctx.quick, nmax=60)
        c['mem'] = 1; c['lwfrac'] = rng.choice([1.3, 1.6, 2.0]); c['lwodd'] = rng.randrange(0, 8)
        c['ops'] = rng.choice(['F,S0', 'F,S0', 'F,S0,R1,S1'])
        c['nps'] = str(rng.choice([2, 3, 4, 4, 8])); c['pmode'] = rng.choice([7, 7, 1, 0]); c['pert'] = rng.randrange(1, 1 << 30)
        out.append(({'variant': 'plain', 'prec': prec, 'class': 'wsmt'}, c))
    # refactorization in the SAME tight buffer with more threads than the first factorization (buffer = the 1-thread query size,
    # arrays nearly full): the tail allocations of the second call must respect what the factors occupy at the head
    NT = 400 if ctx.quick else 6000
    for i in range(NT):
        prec = rng.choice(PRECS)
        c = hist_base(rng, ctx.quick, nmax=60)
        c['n'] = max(c['n'], 12)
        c['mem'] = 1; c['lwfrac'] = rng.choice([1.0, 1.0, 1.05, 1.2]); c['lwodd'] = rng.choice([0, 4])
        c['fill7frac'] = rng.choice([1.5, 2.0, 3.0, 6.0]); c['fill8frac'] = rng.choice([2.0, 3.0, 6.0])
        c['ops'] = rng.choice(['F,S0,R1,S1', 'F,R0,S0', 'F,R1,R0,S2']); c['nps'] = rng.choice(['1,1,4,1', '1,8,8,1', '2,2,8,8', '1,2,4,8'])
        c['pmode'] = rng.choice([0, 1, 7]); c['pert'] = rng.randrange(1, 1 << 30); c['oomok'] = 1      # a clean info > n is a legitimate answer here
        out.append(({'variant': 'plain', 'prec': prec, 'per_process': True, 'class': 'capacity', 'dump': False}, c))
    # capacity of U / of the L subscripts near the real need, in both memory modes: the run either fits (factors checked,
    # arrays disjoint inside the buffer) or stops through the "Storage for ... exceeded" diagnostic; one case per process
    NF = 500 if ctx.quick else 8000
    for i in range(NF):
        prec = rng.choice(PRECS)
        c = hist_base(rng, ctx.quick, nmax=44)
        c['n'] = max(c['n'], 8)
        c['mem'] = rng.choice([1, 1, 0]); c['lwfrac'] = 2.0
        c['fill7frac' if rng.random() < 0.7 else 'fill8frac'] = round(rng.choice([0.3, 0.5, 0.7, 0.8, 0.9, 1.0, 1.1, 1.2, 1.4, 1.7, 2.0, 3.0]) + rng.random() * 0.1, 3)
        c['ops'] = 'F,S0'; c['nps'] = str(rng.choice([1, 1, 2, 4]))
        out.append(({'variant': 'asan' if c['mem'] == 0 else 'plain', 'prec': prec, 'per_process': True, 'class': 'capacity', 'dump': False}, c))
    # size-dependent refusal behind USER_MALLOC: every request of S bytes or more fails, smaller ones succeed (the retry loops
    # of the initial allocation recover by halving); S swept through the sizes the call asks for; repeated 4 times, the count of
    # live USER_MALLOC blocks must not grow from repetition to repetition
    NS2 = 300 if ctx.quick else 4000
    for i in range(NS2):
        prec = rng.choice(PRECS)
        c = hist_base(rng, ctx.quick, nmax=44)
        c['n'] = max(c['n'], 12)
        c['ops'] = rng.choice(['F,S0,D', 'V', 'E', 'F,R0,D']); c['nps'] = str(rng.choice([1, 2, 4])); c['reps'] = 4; c['leakcheck'] = 1
        # sizes: the large arrays are (fill x nnz) x 4..16 bytes; nnz ~ 3n..6n; default fills 20..50
        c['failsize'] = int(rng.choice([0.02, 0.05, 0.1, 0.2, 0.35, 0.5, 0.7, 1.0, 1.5, 3.0]) * 50 * 5 * c['n'] * 8)
        c['oomok'] = 1
        out.append(({'variant': 'asan_um', 'prec': prec, 'per_process': True, 'class': 'failsize', 'dump': False, 'env': {'ASAN_OPTIONS': R_ASAN_LEAK}}, c))
    # (c) failing allocator behind USER_MALLOC: request k and all later ones fail, k = 1..K
    configs = []
    for prec in PRECS:
        for np_ in ((1, 2, 3, 4) if not ctx.quick else (1, 2, 4)):
            configs.append((prec, np_))
    if ctx.quick:
        rng.shuffle(configs); configs = configs[:6]
    for ci, (prec, np_) in enumerate(configs):
        base = {'cmd': 'hist', 'seed': 100 + ci, 'n': 9 if ci % 2 else 12, 'fam': 'grid' if ci % 2 else 'band', 'vals': 'generic', 'ord': 1, 'w': 2, 'relax': 2, 'maxsup': 8,
                'rowblk': 200, 'colblk': 100, 'ops': 'F,S0' if ci % 3 else 'V', 'nps': str(np_), 'cfg': ci}
        kmax = 70 + 14 * np_
        for k in range(0, kmax + 1):
            c = dict(base); c['failat'] = k
            out.append(({'variant': 'asan_um', 'prec': prec, 'per_process': True, 'class': 'failalloc', 'dump': False}, c))
    return out

import re as _re
re_abort = _re.compile(r'(SUPERLU_MALLOC|[Mm]alloc|alloc).* at line \d+ in file ')
OOM_MARKS = ('queue_init fails', 'SUPERLU_MALLOC fail', 'Malloc fails', 'malloc fails', 'Memory allocation failed', 'Not enough memory', 'Not enough core', 'fails for', 'Can\'t expand')

def judge_c14(ctx, r, out):
    m = r['meta']; c = r['case']; res = r.get('result')
    cls = m.get('class')
    if cls not in ('workspace', 'failalloc', 'capacity', 'failsize'):
        return False
    if r.get('timeout'):
        return False
    err = r.get('stderr') or ''
    if cls == 'failsize' and res is not None:
        tmp = []
        if 'LeakSanitizer' in err:
            judge_c17(ctx, r, tmp)      # the history ran to its end: whatever is still allocated at exit was lost by a call that returned
        # calls that RECOVERED from the refusals (info = 0 throughout) must not lose anything; a call that gave up with info > n in the
        # middle of the factorization is a separate class (known finding: workers leave without releasing their work arrays)
        out.extend(tmp)          # (judge_record adds the class suffix |after-oom)
    san = r.get('san')
    if san:
        out.append(('C14|%s|%s:%s|%s' % (cls, san['tool'], san['kind'], san['top']), 'sanitizer report under %s: %s' % (cls, san)))
        return True
    if res is None or r.get('rc', 0) != 0:
        if r.get('signal'):
            out.append(('C14|%s|signal|%s' % (cls, r['signal']), 'killed by %s; stderr: %s' % (r['signal'], err[-300:])))
        elif any(mk in err for mk in OOM_MARKS) or re_abort.search(err):
            r['stopped_with_diagnostic'] = True
        else:
            out.append(('C14|%s|exit-without-diagnostic' % cls, 'process ended with rc=%s and no allocation diagnostic; stderr: %s' % (r.get('rc'), err[-300:])))
        return True
    # a normal return
    if cls == 'failalloc' and res.get('alloc_failed', 0) > 0:
        infos = res.get('infos', '')
        if any(t in ('F0', 'V0', 'E0') for t in infos.split(',')):
            out.append(('C14|failalloc|silent-success', '%d allocation requests failed but the call returned as if it had succeeded (%s)' % (res['alloc_failed'], infos)))
    return False

def cov_c14(ctx, recs):
    d = collections.Counter(); cfgK = {}; cfgSeen = collections.defaultdict(set)
    pairs = collections.defaultdict(dict)
    for r in recs.values():
        m = r['meta']; c = r['case']; res = r.get('result') or {}
        cls = m.get('class')
        if r.get('stopped_with_diagnostic'): d[cls + ':stopped-with-diagnostic'] += 1
        elif res.get('oom_info'): d[cls + ':returned-info>n'] += 1
        elif res: d[cls + ':completed'] += 1
        if cls == 'failalloc':
            if int(c['failat']) == 0 and res: cfgK[c['cfg']] = res.get('allocs', 0)
            cfgSeen[c['cfg']].add(int(c['failat']))
        if cls == 'pair' and res:
            pairs[(m['prec'], c['pair'])][c['mem']] = res.get('digest')
    full = sum(1 for k, K in cfgK.items() if all(x in cfgSeen[k] for x in range(1, K + 1)))
    return {'outcomes': dict(d), 'failalloc_configs': len(cfgK), 'failalloc_configs_with_every_request_failed': full, 'allocation_requests_per_config': cfgK,
            'workspace_pairs_compared': sum(1 for v in pairs.values() if len(v) == 2)}

def post_c14(ctx, recs, out):
    pairs = collections.defaultdict(dict)
    for r in recs.values():
        if r['meta'].get('class') == 'pair' and r.get('result'):
            pairs[(r['meta']['prec'], r['case']['pair'])][r['case']['mem']] = r
    for k, v in pairs.items():
        if len(v) == 2 and v[0]['result'].get('digest') != v[1]['result'].get('digest') and not v[0]['result'].get('nfail') and not v[1]['result'].get('nfail'):
            out.append(('C14|user-workspace-result-differs', v[1], 'factors/solution with a sufficient caller workspace differ from the internally allocated run (1 thread): %s vs %s' % (v[1]['result'].get('digest'), v[0]['result'].get('digest'))))

PROPS['C14'] = dict(gen=gen_c14, relevant=('C14|', 'C08|reconstruction', 'C08|residual', 'C08|factors-malformed', 'C17|heap-growth', 'C17|leak|'), counters=H_COUNTERS, batch=20, judge=judge_c14, coverage_extra=cov_c14, post=post_c14,
                    timeout_case=20.0, level='fault_enumeration',
                    nontrivial=lambda r: bool(r.get('result')) or bool(r.get('stopped_with_diagnostic')),
                    rule='(a) lwork=-1 queries with sentinel-filled L/U; (b) caller workspace = malloc(lwork) (ASan red zones) for size fractions 0..2 of the query estimate, 1..4 threads, with refactorization and reuse; '
                    '1-thread runs with sufficient workspace compared bitwise with the internally allocated run; 2..8-thread runs with sufficient workspace of unaligned size under a stretched carve/re-align window, '
                    'every thread\'s work arrays (hook events WORK_ALLOC/WORK_FREE) checked pairwise disjoint while live and inside the buffer, results by the C08 oracles; (c) failing allocator behind the documented USER_MALLOC hook: for each configuration a counting run '
                    'measures K requests and request k and all later ones fail for every k=1..K; distinct = sha1(case); non-trivial = a result or a diagnostic stop was observed; '
                    'allowed outcomes: success (all L/U arrays inside the buffer, oracles pass), info>n, or exit through a library diagnostic; never a sanitizer report, signal, watchdog or silent success',
                    floors={'failalloc_configs_with_every_request_failed': 3, 'workspace_pairs_compared': 50, 'inbuf_checked': 100, 'work_allocs': 500})

# ---- C17 ----
def gen_c17(ctx):
    rng = ctx.rng
    out = []
    N = 900 if ctx.quick else 8000
    seqs = ['F,S0,D', 'F,R1,S1,R0,S0,D', 'V', 'E', 'V1', 'E1', 'X', 'V,E,V1,E1,X,F,S0,D', 'F,D,F,R0,D', 'E2', 'Q,E2,F,S0,D', 'E3', 'E4', 'E3,E4,E', 'E3,V,E1', 'E5', 'E5,E', 'V,E5', 'E6', 'E6,E', 'E']
    for i in range(N):
        prec = rng.choice(PRECS)
        c = hist_base(rng, ctx.quick, nmax=30)
        c['ops'] = rng.choice(seqs)
        if c['ops'] in ('E', 'V', 'E,V', 'E6') and rng.random() < 0.5:
            # extreme magnitudes (values times 2^e): norms that overflow to Inf or underflow; the call may report info = n+1 or succeed
            c['escale'] = rng.choice([1021, 1022, -1040, 1000, -1000]) if True else 0
            c['dom'] = 'row'; c['fam'] = rng.choice(['band', 'grid']); c['bl'] = 1; c['bu'] = 1; c.pop('dens', None)
        if 'E5' in c['ops']:
            c['dom'] = 'row'        # symmetric mode with threshold 0 is only meaningful when diagonal pivots stay nonzero
            if c['fam'] in ('rand',): c['fam'] = 'grid'; c.pop('dens', None)
        if rng.random() < 0.12: c['fam'] = 'diag'; c['dom'] = ''        # no off-diagonal entry at all: empty adjacency structures in the orderings
        elif rng.random() < 0.1: c['fam'] = 'blockdiag'; c['bs'] = 1; c['dom'] = 'row'
        # one thread count per case: the C runtime keeps per-thread structures of finished threads for reuse, so a
        # repetition that is the first to use more threads than any before it grows the heap once (not a library leak)
        c['nps'] = str(rng.choice([1, 2, 3, 4]))
        c['mem'] = rng.choice([0, 0, 1]) if c['ops'][0] == 'F' else 0
        if c['mem']: c['lwbytes'] = 400000
        c['reps'] = rng.choice([3, 5, 50]) if rng.random() < 0.1 else rng.choice([3, 5])
        c['leakcheck'] = 1
        out.append(({'variant': 'asan', 'prec': prec, 'per_process': True, 'env': {'ASAN_OPTIONS': R_ASAN_LEAK}}, c))
    # the workspace query is a call class of its own
    for i in range(12 if ctx.quick else 100):
        prec = rng.choice(PRECS)
        c = hist_base(rng, ctx.quick, nmax=20)
        c['ops'] = 'Q'; c['nps'] = str(rng.choice([1, 2, 4])); c['reps'] = 4; c['leakcheck'] = 1; c['cls'] = 'query'
        out.append(({'variant': 'asan', 'prec': prec, 'per_process': True, 'env': {'ASAN_OPTIONS': R_ASAN_LEAK}}, c))
    return out

R_ASAN_LEAK = 'abort_on_error=0:exitcode=97:detect_leaks=1:allocator_may_return_null=1:handle_abort=1'

def judge_c17(ctx, r, out):
    err = r.get('stderr') or ''
    if 'LeakSanitizer' in err:
        import re
        funcs = []
        for blk in err.split('\n\n'):
            if 'leak of' in blk:
                fr = re.findall(r'#\d+ 0x[0-9a-f]+ in (\S+) \S*/SRC/', blk)
                fr = [re.sub(r'^p([sdcz])g', 'p?g', re.sub(r'^([sdcz])(Preset|Create|user_|gs|pivot)', r'?\2', f)) for f in fr if f not in ('superlu_malloc', 'intMalloc', 'intCalloc')]
                if fr: funcs.append(fr[0])
        cls = 'query' if r['case'].get('ops') == 'Q' else ('ops:' + r['case'].get('ops', '?'))
        for f in sorted(set(funcs)) or ['?']:
            out.append(('C17|leak|%s|%s' % ('query' if cls == 'query' else 'call', f), 'LeakSanitizer: block allocated in %s still live at exit (%s)' % (f, cls)))
        r['rc'] = 0 if r.get('result') else r.get('rc')
        r['san'] = None
    return False

PROPS['C17'] = dict(gen=gen_c17, relevant=('C17|',), counters=H_COUNTERS + ('heap_growth',), batch=1, judge=judge_c17, timeout_case=120.0,
                    nontrivial=lambda r: (r.get('result') or {}).get('nops', 0) >= 1,
                    rule='call sequences by class (factor+solve+destroy, refactor chains, complete simple/expert driver calls, singular calls, workspace queries, user workspace) repeated 3, 5 and 50 times in one process '
                    'under the ASan build with LeakSanitizer; distinct = sha1(case); non-trivial = at least one call executed; oracle: live heap bytes (sanitizer allocator statistics) after repetition k equal those after repetition 2, '
                    'LeakSanitizer at exit names any block still allocated with its allocation stack, thread census unchanged',
                    floors={'nops': 500})

# ---- C18 ----
def gen_c18(ctx):
    rng = ctx.rng
    out = []
    prefixes = ['', 'fam:band;n:40;ops:F,S0,D;nps:1', 'fam:grid;n:30;ops:F,R1,S1,R0,S2,D;nps:2;u:0.5', 'fam:band;n:24;ops:F,S0;mem:1;lwbytes:300000;nps:1',
                'fam:band;n:24;ops:F,S0;mem:1;lwbytes:2000;nps:1', 'fam:arrow;n:16;ops:X;nps:2', 'fam:band;n:12;ops:Q;nps:1', 'fam:grid;n:50;ops:V,E;nps:4',
                'fam:rand;n:60;dens:0.08;ops:F,S1,D;nps:8;w:1;relax:1', 'fam:chain;n:33;ops:V1,E1;nps:3', 'fam:dense;n:9;ops:F,R0,R1,D;nps:2',
                'fam:forest;n:44;bs:3;ops:F,D,F,S2;nps:4', 'fam:band;n:5;ops:E;nps:1', 'fam:grid;n:64;ops:F,S0,D;nps:1;w:8;relax:4;maxsup:16']
    NP = 18 if ctx.quick else 60
    probes = []
    for i in range(NP):
        c = hist_base(rng, ctx.quick, nmax=44)
        c['ops'] = rng.choice(['F,S0', 'F,S1', 'V', 'E'])
        if i % 3 == 2: c['ops'] = rng.choice(['Q', 'Q,F,S0']); c['n'] = min(c['n'], 24)     # the answer of a workspace query (bytes + n, reported as info) is a result too: smaller matrices than most prefixes
        c['nps'] = '1'
        probes.append((rng.choice(PRECS), c))
    k = 0
    for pi, (prec, pc) in enumerate(probes):
        for a in range(len(prefixes)):
            combos = [prefixes[a]] if a else ['']
            if a and not ctx.quick:
                combos += [prefixes[a] + '|' + prefixes[b] for b in range(1, len(prefixes)) if (a * 7 + b + pi) % 5 == 0]
            elif a:
                b = 1 + (a * 3 + pi) % (len(prefixes) - 1)
                combos.append(prefixes[a] + '|' + prefixes[b])
            for pre in combos:
                c = dict(pc); c['probe'] = pi
                if pre: c['pre'] = pre
                k += 1
                out.append(({'variant': 'asan' if (k % 4 == 0) else 'plain', 'prec': prec, 'per_process': True}, c))
    # memory-subsystem state: the probe factors and refactors in a caller workspace of exactly the query size after histories of
    # user-workspace calls that failed at different points (buffer sizes swept through the range where the initial allocation
    # succeeds and a worker's work arrays do not fit), that were interrupted by singular inputs, or that used other thread counts
    NM = 150 if ctx.quick else 1500
    for i in range(NM):
        c = hist_base(rng, ctx.quick, nmax=44)
        c['n'] = max(c['n'], 12)
        c['mem'] = 1; c['lwfrac'] = 1.0; c['fill7frac'] = rng.choice([2.0, 3.0, 6.0]); c['fill8frac'] = rng.choice([2.0, 3.0, 6.0])
        # one thread: whether a multithreaded run fits into a tight buffer depends on the schedule (late starters reuse the tail)
        c['ops'] = rng.choice(['F,R0,S0', 'F,R1,S1', 'F,S0,R0,R1']); c['nps'] = '1'; c['oomok'] = 1
        prec = rng.choice(PRECS)
        fr = [0.55 + 0.03 * k for k in range(16)]; rng.shuffle(fr)
        pre = '|'.join('fam:%s;n:%d;ops:F;mem:1;lwfrac:%.2f;nps:%s;oomok:1;fill7frac:3.0;fill8frac:3.0' % (rng.choice(['grid', 'band']), rng.choice([16, 24, 36]), f, rng.choice(['1', '2', '4'])) for f in fr[:rng.choice([3, 6, 10])])
        a = dict(c); a['probe'] = 5000000 + i
        b = dict(c); b['probe'] = 5000000 + i; b['pre'] = pre
        out.append(({'variant': 'plain', 'prec': prec, 'per_process': True}, a))
        out.append(({'variant': 'plain', 'prec': prec, 'per_process': True}, b))
    # long histories: ~150 assorted complete driver calls (orders 5..44) before the probe; state that is only exhausted or
    # overwritten after many calls shows here.  Probes are complete expert-driver calls (every output incl. rcond, ferr, berr
    # is in the digest), many of them because only some inputs are sensitive to a given piece of carried-over state.
    NL = 1200 if ctx.quick else 12000
    sweeps = ['fam:band;ops:E;nps:1;sweep:12;seed:%d;rscale:20;cscale:20', 'fam:rand;dens:0.15;ops:E;nps:1;sweep:150;seed:%d', 'fam:band;ops:E,V;nps:1;sweep:100;seed:%d', 'fam:grid;ops:E,F,S1,D;nps:1;sweep:60;seed:%d;w:2;relax:2',
              'fam:rand;dens:0.2;vals:hostile;dom:row;ops:E;nps:1;sweep:150;seed:%d']
    for i in range(NL):
        c = hist_base(rng, ctx.quick, nmax=44)
        if rng.random() < 0.3: c['fam'] = 'svd'; c['cond'] = rng.choice([1e3, 1e6, 1e9]); c['n'] = min(c['n'], 30)
        elif rng.random() < 0.3: c['vals'] = 'hostile'; c['dom'] = 'row'
        c['ops'] = rng.choice(['E', 'E', 'E', 'V', 'F,S0', 'E3', 'E4', 'E1', 'E1']); c['nps'] = '1'      # E1: an exactly zero column (equilibration stops early)
        if rng.random() < 0.25: c['zerorhs'] = rng.choice([1, 1, 2])      # thresholds for tiny denominators come into play
        prec = rng.choice(PRECS)
        a = dict(c); a['probe'] = 1000000 + i
        b = dict(c); b['probe'] = 1000000 + i; b['pre'] = rng.choice(sweeps) % rng.randrange(1, 100000)
        out.append(({'variant': 'plain', 'prec': prec, 'per_process': True}, a))
        out.append(({'variant': 'plain', 'prec': prec, 'per_process': True}, b))
    return out

def _c18_sig(r):
    # one thread: every output bit; several threads: the supernode partition depends on the schedule, so only what every
    # schedule must agree on is compared (which calls succeeded, with which info) - the values are judged by the C08 oracles
    return (r['result'].get('digest'), r['result'].get('infos')) if str(r['case'].get('nps', '1')) == '1' else r['result'].get('infos')

def post_c18(ctx, recs, out):
    base = {}
    for r in recs.values():
        if 'pre' not in r['case'] and r.get('result'):
            base[(r['meta']['prec'], r['case']['probe'])] = _c18_sig(r)
    for r in recs.values():
        if 'pre' in r['case'] and r.get('result'):
            b = base.get((r['meta']['prec'], r['case']['probe']))
            if b is not None and _c18_sig(r) != b:
                fam = r['case']['pre'].split(';')[0]
                out.append(('C18|result-depends-on-history', r, 'probe %s after prefix "%s" gave %s, in a fresh process %s' % (r['case']['ops'], r['case']['pre'], _c18_sig(r), b)))

def cov_c18(ctx, recs):
    pre = set(); cmp_ = 0
    for r in recs.values():
        if 'pre' in r['case']:
            pre.add(r['case']['pre']); cmp_ += 1 if r.get('result') else 0
    return {'distinct_prefix_histories': len(pre), 'probe_runs_compared_with_fresh_process': cmp_}

PROPS['C18'] = dict(gen=gen_c18, relevant=('C18|', 'C08|reconstruction', 'C08|residual'), counters=H_COUNTERS, batch=1, post=post_c18, coverage_extra=cov_c18, timeout_case=60.0,
                    nontrivial=lambda r: 'pre' in r['case'] and bool(r.get('result')),
                    rule='probe calls (first factorization + solve, or a complete simple/expert driver call; 1 thread, built-in kernels) run in a fresh process and after prefix histories in the same process drawn from a 13-letter '
                    'alphabet (other sizes and families, refactorization chains, user workspace sufficient/insufficient, singular calls, workspace query, other tuning parameters, 8-thread runs), singly and in pairs, '
                    'and after long histories of 60-150 assorted complete driver calls; '
                    'distinct = sha1(case); non-trivial = a prefixed run that returned; oracle: the digest of every output byte (L/U structure and values, permutations, X, info; for driver calls also equed, R, C, rcond, ferr, berr, pivot growth) equals the fresh-process digest',
                    floors={'probe_runs_compared_with_fresh_process': 100},
                    assumptions=['prefix histories in another precision are not exercised: each probe binary links one precision\'s harness (the per-precision static state is disjoint by construction)'])

# ---- C16 ----
def gen_c16(ctx):
    rng = ctx.rng
    out = []
    N = 1500 if ctx.quick else 25000
    pv = spread(rng, N)
    for i in range(N):
        c = factor_case(rng, ctx.quick, 'gstrf', fams=['rand', 'band', 'grid', 'arrow', 'star', 'forest', 'chain', 'dense'], pmodes=(0, 1, 2, 3), nps=[1, 2, 4, 8])
        c['symm'] = 1; c['ord'] = rng.choice([2, 2, 2, 0]); c['u'] = 0.0; c['expect_diag'] = 1
        c['vals'] = rng.choice(['generic', 'int', 'hostile']); c['dom'] = rng.choice(['row', 'col'])
        c.pop('rscale', None); c.pop('cscale', None)
        if rng.random() < 0.4: c['symmpat'] = 1
        if rng.random() < 0.25:
            # exact magnitude ties between the diagonal and off-diagonal candidates (grounded unit-weight Laplacians)
            # (symmetric pattern: a grounded Laplacian of a connected graph keeps nonzero diagonal pivots, which is the premise of C16;
            #  with an unsymmetric pattern weak dominance does not guarantee that and the statement does not apply)
            c['lapl'] = rng.choice([1, 2]); c.pop('dom', None); c['vals'] = 'ones'; c['symmpat'] = 1
            if c['fam'] in ('rand', 'dense'): c['fam'] = rng.choice(['grid', 'tree', 'chain', 'star', 'band']); c.pop('dens', None)
            if c['fam'] == 'tree': c['shape'] = rng.choice([0, 1, 2, 3]); c['kary'] = 3; c['xanc'] = 0
            if c['fam'] == 'band': c['bl'] = 1; c['bu'] = 1
            if c['fam'] == 'star': c['bs'] = rng.choice([1, 2]); c['ncpl'] = 1
        v = 'plain'
        env = {}
        r = rng.random()
        if r < 0.25: v = 'asan'
        elif r < 0.32: v = 'tsan'
        m = {'variant': v, 'prec': pv[i]}
        if v == 'tsan': m['per_process'] = True; c['n'] = min(c['n'], 60); c['oracle'] = 0
        out.append((m, c))
    # gadgets on which the A+A' prediction and the column structure of A differ most: pendants + a clique attached through one row
    NG = 400 if ctx.quick else 6000
    pv = spread(rng, NG)
    for i in range(NG):
        relax = rng.choice([2, 3, 4, 6, 6, 8])
        npend = max(1, relax + rng.choice([-1, -1, -1, 0, -2])); nd = rng.choice([3, 5, 7, 9, 12]); nabs = rng.choice([0, 4, 12])
        c = {'cmd': 'gstrf', 'fam': 'pendclique', 'npend': npend, 'nd': nd, 'n': npend + 1 + nd + nabs, 'symstruct': 1 if rng.random() < 0.15 else 0, 'seed': rng.randrange(1, 1 << 30),
             'vals': 'generic', 'dom': rng.choice(['row', 'col']), 'np': rng.choice([1, 2, 4]), 'ord': rng.choice([2, 2, 2, 0]), 'w': rng.choice([1, 2, 4, 8]), 'relax': relax,
             'maxsup': max(relax, rng.choice([8, 24])), 'rowblk': 200, 'colblk': 100, 'symm': 1, 'u': 0.0, 'expect_diag': 1}
        out.append(({'variant': 'asan' if i % 3 == 0 else 'plain', 'prec': pv[i]}, c))
    # circulant-like unsymmetric structure: every row holds as many entries as the column of the same index (one-sided stencil
    # on a periodic ring coupled to a symmetric chain); nothing is one-sided near a border, unlike bands / arrows / random patterns
    NR = 300 if ctx.quick else 4000
    pv = spread(rng, NR)
    for i in range(NR):
        n = rng.choice([6, 8, 12, 20, 30, 44, 60])
        c = {'cmd': 'gstrf', 'fam': 'ring', 'n': n, 'chainlen': rng.choice([0, n // 2, n // 3, 2]), 'ringk': rng.choice([2, 2, 3, 5]), 'seed': rng.randrange(1, 1 << 30),
             'vals': rng.choice(['generic', 'int']), 'dom': rng.choice(['row', 'col']), 'np': rng.choice([1, 2, 4]), 'ord': rng.choice([2, 2, 2, 0]), 'w': rng.choice([1, 2, 4, 8]),
             'relax': rng.choice([1, 1, 2, 6]), 'rowblk': 200, 'colblk': 100, 'symm': 1, 'u': 0.0, 'expect_diag': 1}
        c['maxsup'] = max(c['relax'], rng.choice([4, 8, 24]))
        out.append(({'variant': 'asan' if i % 3 == 0 else 'plain', 'prec': pv[i]}, c))
    # through the expert driver as EXAMPLE/p?linsolx2.c does
    M = 400 if ctx.quick else 6000
    for i in range(M):
        prec = rng.choice(PRECS)
        c = gssvx_case(rng, prec, ctx.quick, kind='sparse')
        c['fam'] = rng.choice(['band', 'grid', 'arrow', 'star', 'forest', 'rand']); c.pop('cond', None); c.pop('svmode', None)
        if c['fam'] == 'rand': c['dens'] = round(min(1.0, 3.0 / max(c['n'], 1)), 4)
        if c['fam'] in ('star', 'forest'): c['bs'] = 3; c['ncpl'] = 1
        if c['fam'] == 'band': c['bl'] = 2; c['bu'] = 1
        c['symm'] = 1; c['ord'] = 2; c['u'] = 0.0; c['dom'] = rng.choice(['row', 'col']); c['equil'] = 0; c['trans'] = 0; c['stype'] = 'nc'
        for k in ('rscale', 'cscale', 'factored', 'trans2'): c.pop(k, None)
        out.append(({'variant': 'plain', 'prec': prec}, c))
    return out

PROPS['C16'] = dict(gen=gen_c16, relevant=('C16|', 'C02|', 'C05|L-slot-overrun', 'C07|backward-error', 'race|'), counters=EV_COUNTERS + ('symm_diag',), batch=25,
                    nontrivial=lambda r: (r.get('result') or {}).get('n', 0) >= 4 and (r.get('result') or {}).get('info') in (0,),
                    rule='symmetric mode (SymmetricMode=YES, ordering on A^T+A, threshold 0) on row- or column-diagonally dominant matrices with symmetric and unsymmetric patterns, direct factorization and expert driver, '
                    '4 precisions, 1..8 threads, perturbed, plain/ASan/TSan builds; distinct = sha1(case); non-trivial = n>=4 and info=0; oracle: C02 reconstruction and multiplier checks, perm_r == perm_c, '
                    'every column of L no longer than the symmetric prediction colcnt_h, slot-bound monitor at every L allocation, sanitizers silent',
                    floors={'symm_diag': 800, 'pipe_takes': 100})

# ---- C20 ----
def gen_c20(ctx):
    from vlib import mmio
    rng = ctx.rng
    out = []
    N = 4000 if ctx.quick else 40000
    d = os.path.join(getattr(ctx, 'workdir', '/verif/.cache'), 'files')
    os.makedirs(d, exist_ok=True)
    prev_by = {}
    for i in range(N):
        prec = rng.choice(PRECS)
        cplx = prec in 'cz'; single = prec in 'sc'
        fmt = rng.choice(['hb', 'hb', 'rb', 'rb', 'mt'])
        text, exp = {'hb': mmio.write_hb, 'rb': mmio.write_rb, 'mt': mmio.write_mt}[fmt](rng, cplx, single)
        path = os.path.join(d, 'm%d.%s' % (i, fmt))
        with open(path, 'w') as f:
            f.write(text)
        c = {'cmd': 'read', 'fmt': fmt, 'file': path}
        if i % 3 == 0 and prev_by.get((fmt, prec)):
            # one process reads several files: one or two earlier files of the same format and precision first
            c['prefiles'] = ';'.join(rng.sample(prev_by[(fmt, prec)], min(len(prev_by[(fmt, prec)]), rng.choice([1, 2]))))
        prev_by.setdefault((fmt, prec), []).append(path)
        if len(prev_by[(fmt, prec)]) > 12: prev_by[(fmt, prec)].pop(0)
        out.append(({'variant': 'asan' if i % 2 else 'plain', 'prec': prec, 'per_process': True, 'expect': exp, 'dump': False, 'text': text if i < 40 else None}, c))
    return out

def judge_c20(ctx, r, out):
    from vlib import mmio
    res = r.get('result'); m = r['meta']; exp = m['expect']
    if res is None or r.get('rc', 0) != 0 or r.get('timeout'):
        return False
    prec = m['prec']; cplx = prec in 'cz'; single = prec in 'sc'
    fmt = exp['fmt']
    tag = '%s|%s' % (fmt, exp['desc'].strip('()').lstrip('0123456789P').lstrip('0123456789')[:1] if fmt != 'mt' else 'free')
    width = 4 if single else 8
    per = 2 if cplx else 1
    signbit = 1 << (width * 8 - 1)
    if exp['sym']:
        # the file stores one triangle of a symmetric / skew / hermitian matrix: the reader has to return the full matrix.
        # expected entries per column: the stored ones plus the mirror image of every stored off-diagonal entry
        # (negated for Z, conjugated for H); the order inside a column is not part of the statement.
        want = [dict() for _ in range(exp['n'])]
        for j in range(exp['n']):
            for q in range(exp['colptr'][j], exp['colptr'][j + 1]):
                i = exp['rowind'][q]
                want[j][i] = (q, (0,) * per)
                if i != j:
                    flip = {'S': (0,) * per, 'Z': (1,) * per, 'H': (0, 1)[:per] if per == 2 else (0,)}[exp['sym']]
                    want[i][j] = (q, flip)
        full = sum(len(w) for w in want)
        if (res.get('m'), res.get('n')) != (exp['m'], exp['n']):
            out.append(('C20|dimensions|%s' % fmt, 'reader returned %sx%s, file encodes %sx%s' % (res.get('m'), res.get('n'), exp['m'], exp['n'])))
            return True
        if res.get('nnz') != full:
            out.append(('C20|symmetric-not-expanded|%s' % fmt, 'file type %s stores %d entries of a matrix with %d; the reader returned %s' % (exp['sym'], exp['nnz'], full, res.get('nnz'))))
            return True
        cp = res.get('colptr') or []; rw = res.get('rowind') or []; hx = res.get('valhex', '')
        if len(cp) != exp['n'] + 1 or cp[0] != 0 or cp[-1] != full or any(cp[j] > cp[j + 1] for j in range(exp['n'])) or len(rw) != full or len(hx) != full * per * width * 2:
            out.append(('C20|symmetric-expansion|%s' % fmt, 'expanded arrays are not a column-compressed matrix with %d entries: colptr %s' % (full, str(cp)[:80])))
            return True
        for j in range(exp['n']):
            rows = rw[cp[j]:cp[j + 1]]
            if sorted(rows) != sorted(want[j]):
                out.append(('C20|symmetric-expansion|%s' % fmt, 'column %d of the %s-expanded matrix has rows %s, expected %s' % (j, exp['sym'], sorted(rows)[:20], sorted(want[j])[:20])))
                return True
            for pos in range(cp[j], cp[j + 1]):
                q, flip = want[j][rw[pos]]
                for t in range(per):
                    raw = bytes.fromhex(hx[(pos * per + t) * width * 2:(pos * per + t + 1) * width * 2])
                    bits = int.from_bytes(raw, 'little')
                    acc = {a ^ (signbit if flip[t] else 0) for a in mmio.expected_bits(exp['vals'][q * per + t], single)}
                    if bits not in acc:
                        out.append(('C20|symmetric-expansion|%s' % fmt, 'entry (%d,%d) of the %s-expanded matrix (%s of stored entry %d "%s") has bits %x, expected one of %s'
                                    % (rw[pos], j, exp['sym'], 'mirror image' if rw[pos] < j or flip != (0,) * per else 'copy', q, exp['vals'][q * per + t], bits, ['%x' % a for a in acc])))
                        return True
        return True
    if (res.get('m'), res.get('n'), res.get('nnz')) != (exp['m'], exp['n'], exp['nnz']):
        out.append(('C20|dimensions|%s' % fmt, 'reader returned %sx%s nnz %s, file encodes %sx%s nnz %s' % (res.get('m'), res.get('n'), res.get('nnz'), exp['m'], exp['n'], exp['nnz'])))
        return True
    if res.get('colptr') != exp['colptr']:
        out.append(('C20|colptr|%s' % fmt, 'column pointers differ: %s vs %s' % (str(res.get('colptr'))[:80], str(exp['colptr'])[:80])))
        return True
    # same set of (i,j) per column, values attached
    rw = res.get('rowind') or []
    if rw != exp['rowind']:
        out.append(('C20|rowind|%s' % fmt, 'row indices differ: %s vs %s' % (str(rw)[:80], str(exp['rowind'])[:80])))
        return True
    hx = res.get('valhex', '')
    nreal = exp['nnz'] * per
    if len(hx) != nreal * width * 2:
        out.append(('C20|value-count|%s' % fmt, 'value array has %d bytes, expected %d' % (len(hx) // 2, nreal * width)))
        return True
    for q in range(nreal):
        raw = bytes.fromhex(hx[q * width * 2:(q + 1) * width * 2])
        bits = int.from_bytes(raw, 'little')
        acc = mmio.expected_bits(exp['vals'][q], single)
        if bits not in acc:
            out.append(('C20|value|%s' % tag, 'entry %d printed as "%s" was read as bits %x, expected one of %s' % (q, exp['vals'][q], bits, ['%x' % a for a in acc])))
            break
    return True

def cov_c20(ctx, recs):
    k = collections.Counter(); descs = set(); texts = []
    for r in recs.values():
        e = r['meta']['expect']
        k['%s/%s%s' % (e['fmt'], r['meta']['prec'], '/sym' if e['sym'] else '')] += 1
        descs.add(e['desc'])
        if r['meta'].get('text') and len(texts) < 2: texts.append(r['meta']['text'][:600])
    return {'files_by_format_precision': dict(k), 'distinct_value_descriptors': len(descs), 'sample_file_heads': texts}

PROPS['C20'] = dict(timeout_case=15.0, gen=gen_c20, relevant=('C20|',), counters=('nnz',), batch=1, judge=judge_c20, coverage_extra=cov_c20,
                    nontrivial=lambda r: (r.get('result') or {}).get('nnz', 0) >= 2,
                    rule='files written by an independent python writer (from the format definitions in the readers` header comments): Harwell-Boeing with optional right-hand-side header and data, Rutherford-Boeing, '
                    'column-triplet; random m x n patterns incl. empty columns, random legal (kIw) and (kEw.d)/(kDw.d)/(kFw.d)/(1PkEw.d) descriptors within 80 columns, D and E exponents, real and complex, '
                    'symmetric/skew/hermitian type codes; fed to ?readhb/?readrb/?readmt on stdin of a child (plain and ASan); distinct = sha1(case); non-trivial = nnz>=2; '
                    'oracle: dimensions, column pointers and row indices identical, every value bit-identical to the correctly rounded printed decimal (for single precision the value double-rounded through binary64 is accepted too); for S/Z/H type codes the returned matrix must be the full expansion: per column the stored entries plus the mirror images (negated for Z, conjugated for H), values bit-exact, order inside a column free')
