"""Process pool that feeds case lines to probe binaries and reads back one JSON
line per case.  Crashes, sanitizer reports and time-outs are turned into result
records; a batch that dies is re-run case by case so the culprit is identified
and the other cases are still judged."""
import os, subprocess, json, tempfile, shutil, time, signal, re, threading, glob
from concurrent.futures import ThreadPoolExecutor

VERIF = os.path.dirname(os.path.dirname(os.path.abspath(__file__)))
RUNDIR = os.path.join(VERIF, '.cache', 'run')
REPO_DIR = os.path.realpath(os.environ.get('VERIF_REPO', '/repo')) + '/'
NJOBS = int(os.environ.get('VERIF_JOBS', '16'))

SAN_ENV = {
    'ASAN_OPTIONS': 'abort_on_error=0:exitcode=97:detect_leaks=0:allocator_may_return_null=1:handle_abort=1:detect_stack_use_after_return=0',
    'UBSAN_OPTIONS': 'print_stacktrace=1:halt_on_error=1:exitcode=98',
    'TSAN_OPTIONS': 'halt_on_error=0:exitcode=66:history_size=4:second_deadlock_stack=1:report_signal_unsafe=0',
    'OPENBLAS_NUM_THREADS': '1',
    'OMP_NUM_THREADS': '16',
}

def caseline(d):
    return ' '.join('%s=%s' % (k, v) for k, v in d.items())

def _signame(rc):
    if rc is not None and rc < 0:
        try:
            return signal.Signals(-rc).name
        except Exception:
            return 'SIG%d' % -rc
    return None

def summarize_sanitizer(stderr):
    """Reduce a sanitizer report to a stable key: (tool, kind, top library frames)."""
    m = re.search(r'ERROR: AddressSanitizer: (\S+)', stderr)
    tool = kind = None
    if m:
        tool, kind = 'asan', m.group(1)
    else:
        m = re.search(r'runtime error: (.*)', stderr)
        if m:
            tool = 'ubsan'
            kind = re.sub(r'0x[0-9a-f]+', 'ADDR', m.group(1))
            kind = re.sub(r'-?\d+', 'N', kind)[:80]
        elif 'WARNING: ThreadSanitizer' in stderr:
            tool, kind = 'tsan', 'race'
        elif 'LeakSanitizer' in stderr:
            tool, kind = 'lsan', 'leak'
    if not tool:
        return None
    frames = re.findall(r'#\d+ 0x[0-9a-f]+ in (\S+) (\S+)', stderr)
    lib = [f for f, loc in frames if '/repo/' in loc or REPO_DIR in loc or re.match(r'p?[sdczx]g|sp_|[sdcz]', f)]
    lib = [re.sub(r'^p([sdcz])g', 'p?g', re.sub(r'^([sdcz])(g[a-z]+|la|sp_|Pivot|read|Copy|Create|CompRow|user_|myblas)', r'?\2', f)) for f in lib
           if not f.startswith('__') and f not in ('main',)]
    top = lib[0] if lib else (frames[0][0] if frames else '?')
    return {'tool': tool, 'kind': kind, 'top': top, 'frames': lib[:6]}

def parse_tsan(stderr):
    """Split TSan output into report blocks; return list of dicts with a dedup key."""
    reps = []
    blocks = re.split(r'={18}\n', stderr)
    for b in blocks:
        if 'WARNING: ThreadSanitizer' not in b:
            continue
        kind = re.search(r'WARNING: ThreadSanitizer: ([^\(\n]+)', b).group(1).strip()
        # access stanzas
        acc = []
        for m in re.finditer(r'\n  ((?:Previous )?(?:[Aa]tomic )?(?:[Rr]ead|[Ww]rite)) of size \d+ at \S+ by (?:main )?thread[^\n]*\n((?:    #\d+ [^\n]*\n)+)', b):
            rw = 'w' if 'rite' in m.group(1) else 'r'
            fr = re.findall(r'#\d+ (\S+) ', m.group(2))
            fr = [f for f in fr if not f.startswith('__tsan') and not f.startswith('__interceptor')]
            acc.append((rw, fr))
        def norm(f):
            return re.sub(r'^p[sdcz]g', 'p?g', f)
        tops = sorted('%s:%s' % (rw, norm(fr[0]) if fr else '?') for rw, fr in acc[:2])
        key = '~'.join(tops) if tops else kind
        loc = re.search(r'Location is ([^\n]*)', b)
        reps.append({'kind': kind, 'key': key, 'stacks': [[norm(f) for f in fr[:5]] for rw, fr in acc[:2]],
                     'location': loc.group(1)[:120] if loc else '', 'text': b[:3000]})
    return reps

class Runner:
    def __init__(self, timeout_case=60.0, env=None):
        self.timeout_case = timeout_case
        self.env = dict(os.environ)
        self.env.update(SAN_ENV)
        if env:
            self.env.update(env)
        os.makedirs(RUNDIR, exist_ok=True)
        self.tmp = tempfile.mkdtemp(prefix='r%d_' % os.getpid(), dir=RUNDIR)
        self.lock = threading.Lock()
        self.nproc = 0
        # a run that keeps hitting the watchdog has its verdict (hang witnesses) after a few of them: the rest is skipped
        self.max_timeouts = int(os.environ.get('VERIF_MAX_TIMEOUTS', '6'))
        self.n_timeouts = 0

    def close(self):
        shutil.rmtree(self.tmp, ignore_errors=True)

    def _spawn(self, exe, lines, timeout, extra_env=None, wrapper=None):
        with self.lock:
            self.nproc += 1
            k = self.nproc
        path = os.path.join(self.tmp, 'c%d.txt' % k)
        with open(path, 'w') as f:
            f.write('\n'.join(lines) + '\n')
        env = self.env
        if extra_env:
            env = dict(env); env.update(extra_env)
        cmd = (wrapper or []) + [exe, path]
        t0 = time.time()
        try:
            p = subprocess.Popen(cmd, stdout=subprocess.PIPE, stderr=subprocess.PIPE, env=env, cwd=self.tmp,
                                 start_new_session=True)
            try:
                out, err = p.communicate(timeout=timeout)
                to = False
            except subprocess.TimeoutExpired:
                # a hang witness is more useful with stacks: try gdb briefly
                bt = ''
                try:
                    g = subprocess.run(['gdb', '-p', str(p.pid), '-batch', '-ex', 'thread apply all bt 6'],
                                       capture_output=True, text=True, timeout=20)
                    bt = g.stdout[-6000:]
                except Exception:
                    pass
                try:
                    os.killpg(p.pid, signal.SIGKILL)
                except Exception:
                    p.kill()
                out, err = p.communicate()
                err = err + ('\n[watchdog] timeout after %.0fs\n%s' % (timeout, bt)).encode()
                to = True
            rc = p.returncode
        finally:
            try:
                os.unlink(path)
            except OSError:
                pass
        return out.decode('utf-8', 'replace'), err.decode('utf-8', 'replace'), rc, to, time.time() - t0

    def run_batch(self, exe, cases, per_process=False, extra_env=None, wrapper=None, timeout_scale=1.0):
        """cases: list of dicts (must contain 'id').  Returns dict id -> record."""
        res = {}
        if not cases:
            return res
        if per_process or len(cases) == 1:
            groups = [[c] for c in cases]
        else:
            groups = [cases]
        for g in groups:
            if self.n_timeouts >= self.max_timeouts:
                for c in g:
                    res[c['id']] = {'case': c, 'result': None, 'rc': None, 'timeout': False, 'signal': None, 'secs': 0, 'skipped': True}
                continue
            tmo = (self.timeout_case + 2.0 * len(g)) * timeout_scale
            out, err, rc, to, secs = self._spawn(exe, [caseline(c) for c in g], tmo, extra_env, wrapper)
            if to:
                with self.lock:
                    self.n_timeouts += 1
            got = {}
            for ln in out.splitlines():
                ln = ln.strip()
                if not ln.startswith('{'):
                    continue
                try:
                    r = json.loads(ln)
                    got[r.get('id')] = r
                except Exception:
                    pass
            if len(g) == 1:
                c = g[0]
                r = got.get(c['id'])
                rec = {'case': c, 'result': r, 'rc': rc, 'timeout': to, 'signal': _signame(rc), 'secs': secs}
                md = re.search(r'@deadlock (-?\d+) ([^\n]*)', err)
                if md: rec['deadlock'] = md.group(2)
                if rc != 0 or to or r is None or 'Sanitizer' in err or 'runtime error' in err:
                    rec['stderr'] = err[-12000:]
                    rec['san'] = summarize_sanitizer(err)
                res[c['id']] = rec
            else:
                clean = (rc == 0 and not to and all(c['id'] in got for c in g) and 'Sanitizer' not in err and 'runtime error' not in err)
                if clean:
                    for c in g:
                        res[c['id']] = {'case': c, 'result': got[c['id']], 'rc': 0, 'timeout': False, 'signal': None, 'secs': secs / len(g)}
                else:
                    # a deadlock reported by the probe's own watch thread names its case
                    md = re.search(r'@deadlock (-?\d+) ([^\n]*)', err)
                    if md:
                        did = int(md.group(1))
                        for c in g:
                            if c['id'] == did:
                                res[did] = {'case': c, 'result': None, 'rc': rc, 'timeout': False, 'signal': None, 'secs': secs, 'deadlock': md.group(2), 'stderr': err[-3000:]}
                    # keep the results that were completed before the failure, re-run the rest one by one
                    done_ids = set(got.keys())
                    m = re.findall(r'@case (-?\d+)', err)
                    last = int(m[-1]) if m else None
                    for c in g:
                        if c['id'] in done_ids and c['id'] != last and rc != 0:
                            res[c['id']] = {'case': c, 'result': got[c['id']], 'rc': 0, 'timeout': False, 'signal': None, 'secs': 0}
                    rest = [c for c in g if c['id'] not in res]
                    res.update(self.run_batch(exe, rest, per_process=True, extra_env=extra_env, wrapper=wrapper, timeout_scale=timeout_scale))
        return res

    def run_all(self, jobs, njobs=None):
        """jobs: list of (exe, cases, per_process, extra_env, wrapper, timeout_scale).  Parallel over jobs."""
        out = {}
        with ThreadPoolExecutor(njobs or NJOBS) as ex:
            futs = [ex.submit(self.run_batch, *j) for j in jobs]
            for f in futs:
                out.update(f.result())
        return out

def chunk(lst, n):
    return [lst[i:i + n] for i in range(0, len(lst), n)]
